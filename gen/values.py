"""Value generation: ints from the tape -> field values, argument values and whole reference trees."""

BYTES_PALETTE = [
    b"", b"a", b"\x00", b"ab\tc", b'q"\\z', b"\x7f\x80\xff", b"\n\r", b"hello world", b"\x01\x02\x03\x04\x05",
    b"\\", b"\x1f ~", b'"', b"\xfe\xed\xfa\xce\xde\xad", b"tab\there", b"\x00\x00\x00\x00\x00\x00\x00\x00\x00",
]


def int_valid(t, a):
    """a valid value of integer type t chosen by code a; code 0 -> 1 (simplest non-default)"""
    table = [1, 0, t.hi, t.lo, t.hi - 1, t.lo + 1 if t.signed else 2, 7, 42,
             200 if t.hi >= 200 else 3, -1 if t.signed else 255 if t.hi >= 255 else 5, True, False]
    k = a % (len(table) + 1)
    if k < len(table):
        return table[k]
    return t.lo + (a // 11 * 2654435761) % (t.hi - t.lo + 1)


def int_invalid(t, a):
    table = [t.hi + 1, t.lo - 1, "x", 1.5, None, [1], b"\x01", 1 << 70, -(1 << 70), (1,)]
    return table[a % len(table)]


def float_valid(t, a):
    table = [1.5, 0.0, -2.25, 1, 1024.0, -0.5, 3.0e10, 1.0e-3, 123456789, float("inf"), True]
    return table[a % len(table)]


def float_invalid(t, a):
    table = ["x", None, [1.0], b"1"]
    if t.size == 4:
        table += [1e40, -1e40]
    return table[a % len(table)]


def enum_valid(t, a):
    n, v = t.members[(a // 2) % len(t.members)]
    return n if a % 2 else v


def enum_invalid(t, a):
    used = set(v for _, v in t.members)
    bad = 0
    while bad in used:
        bad += 1
    table = [bad, "nope", 1.5, None, [0], b"x", -1, 1 << 32]
    x = table[a % len(table)]
    if type(x) is int and x in used:
        x = "nope"
    return x


def scalar_valid(t, a):
    if t.cat == "enum":
        return enum_valid(t, a)
    if t.is_float:
        return float_valid(t, a)
    return int_valid(t, a)


def scalar_invalid(t, a):
    if t.cat == "enum":
        return enum_invalid(t, a)
    if t.is_float:
        return float_invalid(t, a)
    return int_invalid(t, a)


def bytes_valid(m, a):
    b = BYTES_PALETTE[a % len(BYTES_PALETTE)]
    if a % 7 == 6:
        b = bytes((a * 37 + i * 11) % 256 for i in range(a % 23))
        b = b.replace(b"'", b"_")
    if m.arr in ("fixed", "limited"):
        b = b[:m.n]
    return b


def bytes_invalid(m, a):
    table = ["str", 5, None, [1], bytearray(b"x")]
    if m.arr in ("fixed", "limited"):
        table += [b"z" * (m.n + 1), b"y" * (m.n + 7)]
    return table[a % len(table)]


def stored(t, v):
    """the value a valid argument is stored as (enum names -> numbers)"""
    if t.cat == "enum" and type(v) is str:
        return t.by_name[v]
    return v


# ------------------------------------------------------------------ whole trees

def draw_len(tape, m, big_ok=False):
    if m.arr == "fixed":
        return m.n
    if m.arr == "limited":
        k = tape.draw(m.n + 2)
        return min(k, m.n)
    k = tape.draw(8)
    if k == 7:
        k = 3 + tape.draw(6)
        if big_ok and m.type.cat in ("scalar", "enum") and m.type.size <= 2 and tape.chance(1, 4):
            k = tape.pick([255, 256, 300, 65535, 65536, 65537])
    elif k >= 4:
        k -= 3
    return k


def draw_value(tape, t, depth=0, big_ok=False):
    if t.cat in ("scalar", "enum"):
        return stored(t, scalar_valid(t, tape.draw(64)))
    return draw_tree(tape, t, depth, big_ok)


def draw_tree(tape, t, depth=0, big_ok=False):
    if t.cat == "union":
        name, at, _ = t.arms[tape.draw(len(t.arms))]
        return {"@arm": name, "v": draw_value(tape, at, depth + 1, big_ok)}
    tree = {}
    ext_len = {}
    for m in t.members:
        if m.sizes:
            continue
        if m.is_bytes:
            if m.arr == "ext" and m.sizer in ext_len:
                n = ext_len[m.sizer]
                b = bytes_valid(m, tape.draw(64))
                tree[m.name] = (b * (n // max(1, len(b)) + 1))[:n] if n else b""
            else:
                b = bytes_valid(m, tape.draw(64))
                if m.arr == "fixed":
                    b = b.ljust(m.n, b"\x00")
                tree[m.name] = b
                if m.arr == "ext":
                    ext_len[m.sizer] = len(b)
        elif m.arr:
            if m.arr == "ext" and m.sizer in ext_len:
                n = ext_len[m.sizer]
            else:
                n = draw_len(tape, m, big_ok)
                if m.arr == "ext":
                    sz = t.by_name[m.sizer].type
                    n = min(n, sz.hi)
                    ext_len[m.sizer] = n
            if n > 8 and m.type.cat in ("scalar", "enum"):
                base = draw_value(tape, m.type, depth + 1)
                tree[m.name] = [base] * n
            else:
                tree[m.name] = [draw_value(tape, m.type, depth + 1) for _ in range(n)]
        elif m.opt:
            tree[m.name] = draw_value(tape, m.type, depth + 1, big_ok) if tape.chance(1, 2) else None
        else:
            tree[m.name] = draw_value(tape, m.type, depth + 1, big_ok)
    return tree
