"""Schema generator: tape -> schema AST (plain dicts/lists, JSON-serialisable).

AST
  schema  = {"defs": [def, ...]}
  def     = {"k": "const",   "name", "expr": text, "value": int}
          | {"k": "enum",    "name", "members": [[name, value], ...]}
          | {"k": "typedef", "name", "type": typename}
          | {"k": "struct",  "name", "members": [member, ...]}
          | {"k": "union",   "name", "arms": [{"name", "type", "disc": int}, ...]}
  member  = {"name", "type": typename | "byte",
             "arr": None | "fixed" | "limited" | "dynamic" | "greedy" | "ext",
             "n": int (fixed/limited), "ntext": text used for the size (literal/const/enumerator),
             "sizer": member name (ext), "opt": bool}
Names cannot collide with identifiers the tool-chain generates (num_of_*, has_*,
discriminator, _padding*, partN): K<n> constants, E<n>/E<n>_<m> enums, T<n> typedefs,
S<n> structs, U<n> unions, f<n> / a<n> fields.
"""

INTS = ["u8", "u16", "u32", "u64", "i8", "i16", "i32", "i64"]
FLOATS = ["r32", "r64"]
BUILTIN_WIDTH = {"u8": 1, "u16": 2, "u32": 4, "u64": 8, "i8": 1, "i16": 2, "i32": 4, "i64": 8,
                 "r32": 4, "r64": 8, "byte": 1}

FEATURES = [
    "consts", "enums", "typedefs", "unions", "nested", "opt_scalar", "opt_comp",
    "arr_fixed", "arr_limited", "arr_dynamic", "arr_greedy", "arr_ext", "bytes",
    "floats", "wide", "narrow", "comp_arrays", "shared_sizer", "dyn_nested",
    "big_disc", "const_sizes", "signed_sizer", "sym_values",
]

FIXED, DYNAMIC, UNLIMITED = 0, 1, 2


class _Env(object):
    def __init__(self, feats, cpp):
        self.feats = feats
        self.cpp = cpp
        self.defs = []
        self.types = {}      # name -> {"cat": int|float|enum|struct|union, "stiff": 0..2}
        self.order = []      # user type names in definition order
        self.consts = []     # [(name, value)] usable as array sizes
        self.plain_consts = []   # constants proper (not enumerators)
        self.enumerators = []    # [(name, value)]
        self.counters = {}
        for t in INTS:
            self.types[t] = {"cat": "int", "stiff": FIXED, "signed": t.startswith("i")}
        for t in FLOATS:
            self.types[t] = {"cat": "float", "stiff": FIXED}

    def fresh(self, prefix):
        n = self.counters.get(prefix, 0) + 1
        self.counters[prefix] = n
        return "%s%d" % (prefix, n)

    def names(self, pred):
        return [n for n in self.order if pred(self.types[n])]


def draw_features(tape):
    return {f: tape.chance(1, 2) for f in FEATURES}


def _scalar_builtin(tape, env):
    pool = ["u32", "u8", "u16"]
    if env.feats["narrow"]:
        pool += ["i8", "i16", "u8", "u16"]
    if env.feats["wide"]:
        pool += ["u64", "i64"]
    pool += ["i32"]
    if env.feats["floats"]:
        pool += ["r32", "r64"]
    return tape.pick(pool)


def _scalar_type(tape, env):
    """any scalar-like type name: builtin, enum or typedef thereof"""
    cands = env.names(lambda t: t["cat"] in ("int", "float", "enum"))
    if cands and tape.chance(1, 3):
        return tape.pick(cands)
    return _scalar_builtin(tape, env)


def _fixed_type(tape, env, allow_comp=True):
    """a type usable in optional / fixed / limited array / union arm"""
    cands = env.names(lambda t: t["stiff"] == FIXED and (allow_comp or t["cat"] not in ("struct", "union")))
    if cands and tape.chance(1, 2):
        return tape.pick(cands)
    return _scalar_builtin(tape, env)


def _size(tape, env):
    """-> (n, text)"""
    if env.feats["const_sizes"] and env.consts and tape.chance(1, 2):
        name, value = tape.pick(env.consts)
        return value, name
    n = 1 + tape.draw(4)
    return n, str(n)


def _gen_const(tape, env):
    name = env.fresh("K")
    if env.consts and tape.chance(1, 2):
        base, bval = tape.pick(env.consts)
        k = 1 + tape.draw(3)
        op = tape.draw(4)
        if op == 0:
            expr, value = "%s + %d" % (base, k), bval + k
        elif op == 1:
            expr, value = "%s * %d" % (base, k), bval * k
        elif op == 2:
            expr, value = "(%s << %d)" % (base, k - 1), bval << (k - 1)
        else:
            expr, value = "%d + %s - 1" % (k, base), k + bval - 1
    else:
        value = 1 + tape.draw(5)
        expr = tape.pick([str(value), hex(value)]) if env.feats["const_sizes"] else str(value)
    if value < 1 or value > 12:
        # keep constants usable as array sizes
        value = 1 + value % 6
        expr = str(value)
    env.defs.append({"k": "const", "name": name, "expr": expr, "value": value})
    env.consts.append((name, value))
    env.plain_consts.append((name, value))


def _gen_enum(tape, env):
    name = env.fresh("E")
    members = []
    used = set()
    n = 1 + tape.draw(4)
    for i in range(n):
        if env.feats["big_disc"] and tape.chance(1, 4):
            v = tape.pick([0x7fffffff, 0x80000000, 0xffffffff, 65536, 255, 256])
        else:
            v = tape.draw(8) if i else tape.draw(3)
        vtext = None
        if env.feats.get("sym_values") and env.plain_consts and tape.chance(1, 3):
            cname, cval = tape.pick(env.plain_consts)
            if cval not in used:
                v, vtext = cval, cname
        while v in used:
            v = (v + 1) & 0xffffffff
            vtext = None
        used.add(v)
        members.append(["%s_%d" % (name, i), v] + ([vtext] if vtext else []))
    env.defs.append({"k": "enum", "name": name, "members": members})
    env.types[name] = {"cat": "enum", "stiff": FIXED}
    env.order.append(name)
    # enumerators with small positive values are legal array sizes
    for mem in members:
        mname, v = mem[0], mem[1]
        if 1 <= v <= 6:
            env.consts.append((mname, v))
        env.enumerators.append((mname, v))


def _gen_typedef(tape, env):
    name = env.fresh("T")
    cands = list(env.order)
    if cands and tape.chance(1, 2):
        target = tape.pick(cands)
    else:
        target = _scalar_builtin(tape, env)
    env.defs.append({"k": "typedef", "name": name, "type": target})
    env.types[name] = dict(env.types[target], typedef=True)
    env.order.append(name)


def _gen_union(tape, env):
    name = env.fresh("U")
    arms = []
    used = set()
    n = 1 + tape.draw(4)
    for i in range(n):
        tname = _fixed_type(tape, env)
        if env.feats["big_disc"] and tape.chance(1, 4):
            d = tape.pick([0xffffffff, 0x80000000, 65536, 1000])
        else:
            d = i if not tape.chance(1, 4) else tape.draw(10)
        dtext = None
        if env.feats.get("sym_values") and env.enumerators and tape.chance(1, 3):
            ename, eval_ = tape.pick(env.enumerators)
            if eval_ not in used:
                d, dtext = eval_, ename
        while d in used:
            d = (d + 1) & 0xffffffff
            dtext = None
        used.add(d)
        arm = {"name": "a%d" % (i + 1), "type": tname, "disc": d}
        if dtext:
            arm["dtext"] = dtext
        arms.append(arm)
    env.defs.append({"k": "union", "name": name, "arms": arms})
    env.types[name] = {"cat": "union", "stiff": FIXED}
    env.order.append(name)


MEMBER_KINDS = ["scalar", "bytes", "optional", "array", "composite"]


def _gen_struct(tape, env, want_stiff=None):
    name = env.fresh("S")
    members = []
    sizers = []   # names of members usable as (shared) sizers
    fcount = [0]

    def fname():
        fcount[0] += 1
        return "f%d" % fcount[0]

    nmem = 1
    while tape.more(2, 3, cap=7, have=nmem):
        nmem += 1
    stiff = FIXED
    f = env.feats
    for pos in range(nmem):
        last = pos == nmem - 1
        weights = [
            4,
            2 if f["bytes"] else 0,
            3 if (f["opt_scalar"] or f["opt_comp"]) else 0,
            4 if (f["arr_fixed"] or f["arr_limited"] or f["arr_dynamic"] or f["arr_ext"]
                  or (f["arr_greedy"] and last)) else 0,
            3 if (f["nested"] or f["unions"]) and env.order else 0,
        ]
        kind = MEMBER_KINDS[tape.weighted(weights)]
        m = {"name": fname(), "type": None, "arr": None, "opt": False}
        if kind == "scalar":
            m["type"] = _scalar_type(tape, env)
        elif kind == "optional":
            m["opt"] = True
            m["type"] = _fixed_type(tape, env, allow_comp=f["opt_comp"])
            if not f["opt_scalar"] and env.types[m["type"]]["cat"] not in ("struct", "union"):
                comps = env.names(lambda t: t["stiff"] == FIXED and t["cat"] in ("struct", "union"))
                if comps:
                    m["type"] = tape.pick(comps)
        elif kind == "composite":
            cands = env.names(lambda t: t["cat"] in ("struct", "union") and
                              (t["stiff"] == FIXED or (t["stiff"] == DYNAMIC and f["dyn_nested"]) or
                               (t["stiff"] == UNLIMITED and last and f["dyn_nested"])))
            if cands:
                m["type"] = tape.pick(cands)
                stiff = max(stiff, env.types[m["type"]]["stiff"])
            else:
                m["type"] = _scalar_type(tape, env)
        else:  # bytes / array
            arrs = []
            if f["arr_fixed"]:
                arrs.append("fixed")
            if f["arr_limited"]:
                arrs.append("limited")
            if f["arr_dynamic"]:
                arrs.append("dynamic")
            if f["arr_ext"]:
                arrs.append("ext")
            if f["arr_greedy"] and last:
                arrs += ["greedy", "greedy"]
            if not arrs:
                arrs = ["fixed"] if kind == "bytes" else ["dynamic"]
            arr = tape.pick(arrs)
            m["arr"] = arr
            if kind == "bytes":
                m["type"] = "byte"
            else:
                if f["comp_arrays"] and tape.chance(1, 2):
                    if arr in ("fixed", "limited"):
                        cands = env.names(lambda t: t["cat"] in ("struct", "union") and t["stiff"] == FIXED)
                    else:
                        cands = env.names(lambda t: t["cat"] in ("struct", "union") and t["stiff"] <= DYNAMIC and
                                          (t["stiff"] == FIXED or f["dyn_nested"]))
                    m["type"] = tape.pick(cands) if cands else _scalar_type(tape, env)
                else:
                    m["type"] = _scalar_type(tape, env)
            if arr in ("fixed", "limited"):
                m["n"], m["ntext"] = _size(tape, env)
            if arr in ("dynamic", "ext"):
                stiff = max(stiff, DYNAMIC)
            if arr == "greedy":
                stiff = max(stiff, UNLIMITED)
            if arr == "ext":
                if sizers and f["shared_sizer"] and not env.cpp and tape.chance(1, 2):
                    m["sizer"] = tape.pick(sizers)
                else:
                    sname = fname()
                    tsizers = [] if env.cpp else env.names(lambda t: t["cat"] == "int" and t.get("typedef") and
                                                           (f["signed_sizer"] or not t.get("signed")))
                    if tsizers and tape.chance(1, 3):
                        stype = tape.pick(tsizers)       # a typedef (chain) of an integer type
                    elif f["signed_sizer"] and tape.chance(1, 3):
                        stype = tape.pick(["i8", "i16", "i32", "i64"])
                    else:
                        stype = tape.pick(["u8", "u16", "u32", "u64"] if f["wide"] else ["u8", "u16", "u32"])
                    sm = {"name": sname, "type": stype, "arr": None, "opt": False}
                    # the sizer may sit anywhere before its array
                    at = len(members) - tape.draw(len(members) + 1) if tape.chance(1, 3) else len(members)
                    members.insert(at, sm)
                    sizers.append(sname)
                    m["sizer"] = sname
        members.append(m)
    env.defs.append({"k": "struct", "name": name, "members": members})
    env.types[name] = {"cat": "struct", "stiff": stiff}
    env.order.append(name)
    return name


def _add_struct(env, members, stiff):
    name = env.fresh("S")
    env.defs.append({"k": "struct", "name": name, "members": members})
    env.types[name] = {"cat": "struct", "stiff": stiff}
    env.order.append(name)
    return name


def _m(name, type_, arr=None, n=None, sizer=None, opt=False):
    d = {"name": name, "type": type_, "arr": arr, "opt": opt}
    if n is not None:
        d["n"], d["ntext"] = n, str(n)
    if sizer:
        d["sizer"] = sizer
    return d


SHAPES = ["dyn-tail-optional", "nested-dyn-first", "nested-dyn-middle", "block-align-decreasing",
          "union-arm-struct-with-optional", "optional-wide-and-enum", "ext-arrays-split", "greedy-of-dynamic-structs",
          "limited-of-struct-with-optional", "nested-dyn-then-optional", "array-of-unions", "union-in-union",
          "typedef-enum-arrays", "nested-limited-composites", "shared-sizer-bytes-last", "dyn-struct-embedded-twice",
          "union-wide-arm-low-align", "optional-union", "typedef-chain-sizer", "array-of-big-elements",
          "greedy-of-awkward-composites"]


def _gen_shape(tape, env):
    """Directed shapes (DESIGN.md 2.8): combinations the layout rules single out and random member drawing rarely
    produces. Scalar types and sizes inside each shape are still drawn."""
    small = tape.pick(["u8", "i8", "u16", "i16"])
    small2 = tape.pick(["u8", "u16", "i8"])
    wide = tape.pick(["u32", "u64", "i64", "r64", "u32"])
    cnt = tape.pick(["u8", "u16", "u32"])
    needs = {"dyn-tail-optional": ["arr_dynamic"], "block-align-decreasing": ["arr_dynamic"],
             "greedy-of-dynamic-structs": ["arr_dynamic", "arr_greedy"], "shared-sizer-bytes-last": ["bytes"],
             "dyn-struct-embedded-twice": ["arr_dynamic"], "array-of-big-elements": ["arr_dynamic"],
             "greedy-of-awkward-composites": ["arr_greedy"]}
    forbid = env.feats.get("_forbid", ())
    allowed = [x for x in SHAPES if not any(n in forbid for n in needs.get(x, ()))]
    if env.cpp:     # the C++ full generator refuses arrays sharing a sizer and sizers of a typedef'd type
        allowed = [x for x in allowed if x not in ("shared-sizer-bytes-last", "typedef-chain-sizer")]
    # the C++ peer sees few schemas: there the shapes that only it can judge (allocation by element size) weigh more
    weights = [3 if (env.cpp and x in ("array-of-big-elements", "greedy-of-awkward-composites")) else 1 for x in allowed]
    k = allowed[tape.weighted(weights)]
    if k == "dyn-tail-optional":
        _add_struct(env, [_m("f1", small, "dynamic"), _m("f2", small2, opt=True)], DYNAMIC)
    elif k in ("nested-dyn-first", "nested-dyn-middle", "nested-dyn-then-optional"):
        inner = _add_struct(env, [_m("f1", cnt), _m("f2", small2, "ext", sizer="f1")], DYNAMIC)
        if k == "nested-dyn-first":
            _add_struct(env, [_m("f1", inner), _m("f2", wide)], DYNAMIC)
        elif k == "nested-dyn-middle":
            _add_struct(env, [_m("f1", "u8"), _m("f2", inner), _m("f3", small2), _m("f4", wide)], DYNAMIC)
        else:
            _add_struct(env, [_m("f1", inner), _m("f2", small, opt=True)], DYNAMIC)
    elif k == "block-align-decreasing":
        _add_struct(env, [_m("f1", wide, "dynamic"), _m("f2", "u8"), _m("f3", small2, "dynamic"), _m("f4", small)], DYNAMIC)
    elif k == "union-arm-struct-with-optional":
        item = _add_struct(env, [_m("f1", "u8"), _m("f2", small, opt=True)], FIXED)
        u = env.fresh("U")
        env.defs.append({"k": "union", "name": u, "arms": [{"name": "a1", "type": item, "disc": 1},
                                                            {"name": "a2", "type": tape.pick(["u8", "u64", "u16"]), "disc": 2}]})
        env.types[u] = {"cat": "union", "stiff": FIXED}
        env.order.append(u)
        _add_struct(env, [_m("f1", item, "limited", 3), _m("f2", u), _m("f3", item, opt=True), _m("f4", "u8")], FIXED)
    elif k == "optional-wide-and-enum":
        e = env.fresh("E")
        env.defs.append({"k": "enum", "name": e, "members": [["%s_0" % e, 2 + tape.draw(3)], ["%s_1" % e, 0]]})
        env.types[e] = {"cat": "enum", "stiff": FIXED}
        env.order.append(e)
        _add_struct(env, [_m("f1", "u8"), _m("f2", tape.pick(["u64", "i64", "r64"]), opt=True), _m("f3", e, opt=True),
                          _m("f4", small)], FIXED)
    elif k == "ext-arrays-split":
        _add_struct(env, [_m("f1", cnt), _m("f2", "u16"), _m("f3", wide, "ext", sizer="f1"), _m("f4", "u8"),
                          _m("f5", small, "ext", sizer="f2")], DYNAMIC)
    elif k == "greedy-of-dynamic-structs":
        el = _add_struct(env, [_m("f1", small, "dynamic"), _m("f2", "u32")], DYNAMIC)
        _add_struct(env, [_m("f1", "i8"), _m("f2", small2, "ext", sizer="f1"), _m("f3", el, "greedy")], UNLIMITED)
    elif k in ("array-of-unions", "union-in-union"):
        inner = _add_struct(env, [_m("f1", small), _m("f2", "u8", "fixed", 2)], FIXED)
        u = env.fresh("U")
        env.defs.append({"k": "union", "name": u, "arms": [{"name": "a1", "type": "u8", "disc": 1},
                                                            {"name": "a2", "type": inner, "disc": 2},
                                                            {"name": "a3", "type": wide, "disc": 3}]})
        env.types[u] = {"cat": "union", "stiff": FIXED}
        env.order.append(u)
        if k == "array-of-unions":
            arrs = [_m("f2", u, "fixed", 2), _m("f3", u, "limited", 2)]
            if "arr_dynamic" not in forbid:
                arrs.insert(0, _m("f1", u, "dynamic"))
            _add_struct(env, arrs + [_m("f4", "u8")], DYNAMIC if "arr_dynamic" not in forbid else FIXED)
        else:
            u2 = env.fresh("U")
            env.defs.append({"k": "union", "name": u2, "arms": [{"name": "a1", "type": u, "disc": 0},
                                                                 {"name": "a2", "type": "u32", "disc": 5}]})
            env.types[u2] = {"cat": "union", "stiff": FIXED}
            env.order.append(u2)
            _add_struct(env, [_m("f1", u2), _m("f2", u2, opt=True), _m("f3", small)], FIXED)
    elif k == "typedef-enum-arrays":
        e = env.fresh("E")
        env.defs.append({"k": "enum", "name": e, "members": [["%s_0" % e, 1 + tape.draw(3)], ["%s_1" % e, 0], ["%s_2" % e, 7]]})
        env.types[e] = {"cat": "enum", "stiff": FIXED}
        env.order.append(e)
        t = env.fresh("T")
        env.defs.append({"k": "typedef", "name": t, "type": e})
        env.types[t] = {"cat": "enum", "stiff": FIXED}
        env.order.append(t)
        _add_struct(env, [_m("f1", "u8"), _m("f2", t, "fixed", 2), _m("f3", t, opt=True), _m("f4", cnt),
                          _m("f5", t, "ext", sizer="f4")], DYNAMIC)
    elif k == "nested-limited-composites":
        inner = _add_struct(env, [_m("f1", wide)], FIXED)
        mid = _add_struct(env, [_m("f1", inner, "limited", 3), _m("f2", small)], FIXED)
        _add_struct(env, [_m("f1", cnt), _m("f2", mid, "ext", sizer="f1"), _m("f3", mid), _m("f4", mid, opt=True)], DYNAMIC)
    elif k == "shared-sizer-bytes-last":
        _add_struct(env, [_m("f1", cnt), _m("f2", small, "ext", sizer="f1"), _m("f3", wide),
                          _m("f4", "byte", "ext", sizer="f1")], DYNAMIC)
    elif k == "dyn-struct-embedded-twice":
        blob = _add_struct(env, [_m("f1", small2, "dynamic")], DYNAMIC)
        _add_struct(env, [_m("f1", blob), _m("f2", "u8"), _m("f3", wide), _m("f4", blob), _m("f5", "u8"), _m("f6", small)],
                    DYNAMIC)
    elif k == "union-wide-arm-low-align":
        inner = _add_struct(env, [_m("f1", "u32"), _m("f2", "u32"), _m("f3", tape.pick(["u32", "u8", "u16"]))], FIXED)
        u = env.fresh("U")
        env.defs.append({"k": "union", "name": u, "arms": [{"name": "a1", "type": tape.pick(["u64", "i64", "r64"]), "disc": 1},
                                                            {"name": "a2", "type": inner, "disc": 2}]})
        env.types[u] = {"cat": "union", "stiff": FIXED}
        env.order.append(u)
        _add_struct(env, [_m("f1", u), _m("f2", small), _m("f3", u, "limited", 2), _m("f4", u, opt=True)], FIXED)
    elif k == "optional-union":
        e = env.fresh("E")
        env.defs.append({"k": "enum", "name": e, "members": [["%s_0" % e, 1 + tape.draw(3)], ["%s_1" % e, 0]]})
        env.types[e] = {"cat": "enum", "stiff": FIXED}
        env.order.append(e)
        u = env.fresh("U")
        env.defs.append({"k": "union", "name": u, "arms": [{"name": "a1", "type": small, "disc": 1},
                                                            {"name": "a2", "type": e, "disc": 2},
                                                            {"name": "a3", "type": tape.pick(["r32", "r64"]), "disc": 3}]})
        env.types[u] = {"cat": "union", "stiff": FIXED}
        env.order.append(u)
        _add_struct(env, [_m("f1", u, opt=True), _m("f2", u), _m("f3", "u8")], FIXED)
    elif k == "typedef-chain-sizer":
        t0 = env.fresh("T")
        env.defs.append({"k": "typedef", "name": t0, "type": cnt})
        env.types[t0] = dict(env.types[cnt], typedef=True)
        env.order.append(t0)
        t1 = env.fresh("T")
        env.defs.append({"k": "typedef", "name": t1, "type": t0})
        env.types[t1] = dict(env.types[cnt], typedef=True)
        env.order.append(t1)
        _add_struct(env, [_m("f1", t1), _m("f2", small, "ext", sizer="f1"), _m("f3", t1)], DYNAMIC)
    elif k == "array-of-big-elements":
        # an element that is large on the wire: what a decoder may allocate for a counter is bounded by the input only
        # if it divides by the element size
        big = _add_struct(env, [_m("f1", "u8", "fixed", 3000 + 1000 * tape.draw(3)), _m("f2", small)], FIXED)
        _add_struct(env, [_m("f1", big, "dynamic"), _m("f2", "u8")], DYNAMIC)
    elif k == "greedy-of-awkward-composites":
        # fixed-size elements whose in-memory object size has nothing to do with their wire size
        which = tape.draw(3)
        if which == 0:
            el = env.fresh("U")
            env.defs.append({"k": "union", "name": el, "arms": [{"name": "a1", "type": "u32", "disc": 1},
                                                                 {"name": "a2", "type": tape.pick(["u32", "u16", "i32"]), "disc": 2}]})
            env.types[el] = {"cat": "union", "stiff": FIXED}
            env.order.append(el)
        elif which == 1:
            el = _add_struct(env, [_m("f1", small, "limited", 2 + tape.draw(2)), _m("f2", "u8")], FIXED)
        else:
            el = _add_struct(env, [_m("f1", "u8"), _m("f2", small, opt=True)], FIXED)
        _add_struct(env, [_m("f1", small2), _m("f2", el, "greedy")], UNLIMITED)
    elif k == "limited-of-struct-with-optional":
        item = _add_struct(env, [_m("f1", small, opt=True), _m("f2", "u8")], FIXED)
        _add_struct(env, [_m("f1", "u8"), _m("f2", item, "limited", 2), _m("f3", item, "fixed", 2), _m("f4", small)], FIXED)
    return k


def gen_schema(tape, cpp=False, max_defs=9, feats=None, shape_chance=(1, 4)):
    """Draw a valid schema. cpp=True restricts to what the C++ full generator accepts."""
    if feats is None:
        feats = draw_features(tape)
    env = _Env(feats, cpp)
    ndefs = 0
    while tape.more(3, 4, cap=max_defs, have=ndefs):
        ndefs += 1
        weights = [
            2 if feats["consts"] else 0,
            2 if feats["enums"] else 0,
            1 if feats["typedefs"] else 0,
            2 if feats["unions"] else 0,
            4,
        ]
        k = tape.weighted(weights) if sum(weights[:4]) else 4
        [_gen_const, _gen_enum, _gen_typedef, _gen_union, _gen_struct][k](tape, env)
    shape = None
    if tape.chance(*shape_chance):
        shape = _gen_shape(tape, env)
    if shape is None or tape.chance(1, 2):
        _gen_struct(tape, env)
    out = {"defs": env.defs, "features": sorted(k for k, v in feats.items() if v and not k.startswith("_"))}
    if shape:
        out["shape"] = shape
    return out


def composites(schema):
    return [d["name"] for d in schema["defs"] if d["k"] in ("struct", "union")]


def shape_digest(schema):
    """Digest of the schema *shape*: names removed, kinds/types/array forms kept."""
    import hashlib
    import json
    ren = {}

    def r(n):
        if n in BUILTIN_WIDTH:
            return n
        return ren.setdefault(n, "#%d" % len(ren))
    out = []
    for d in schema["defs"]:
        if d["k"] == "const":
            r(d["name"])
            out.append(["c", d["value"]])
        elif d["k"] == "enum":
            r(d["name"])
            out.append(["e", [m[1] for m in d["members"]]])
        elif d["k"] == "typedef":
            t = r(d["type"])
            r(d["name"])
            out.append(["t", t])
        elif d["k"] == "union":
            out.append(["u", [[r(a["type"]), a["disc"]] for a in d["arms"]]])
            r(d["name"])
        else:
            out.append(["s", [[r(m["type"]), m["arr"], m.get("n"), m.get("sizer"), m["opt"]] for m in d["members"]]])
            r(d["name"])
    return hashlib.sha1(json.dumps(out, sort_keys=True).encode()).hexdigest()[:12]
