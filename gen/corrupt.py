"""Corruption engine for compiler inputs (S-COMP). A corruption is a JSON-able dict; apply_* never draws.

Grammar-aware edits work on the token stream with the grammar in hand (operator for operator, declared name for
declared name, literal for literal, array form for array form) so that most corrupted inputs get past the parser
into the model; a share of blind edits is kept for the parser's own error paths.
"""
import re

TOKEN_RE = re.compile(r'"[^"\n]*"|0x[0-9a-fA-F]+|\d+|[A-Za-z_][A-Za-z0-9_]*|<<|>>|\.\.\.|[^\sA-Za-z0-9_]')

KEYWORDS = ["const", "enum", "typedef", "struct", "union", "u8", "u16", "u32", "u64", "i8", "i16", "i32", "i64",
            "float", "double", "bytes"]
OPERATORS = ["+", "-", "*", "/", "<<", ">>"]
LITERALS = ["0", "1", "2", "010", "0x10", "4294967295", "4294967296", "99999999999999999999999", "65536",
            "0xFFFFFFFFFF", "00", "08"]
SPECIAL_INSERTS = ["/", "<<", ">>", "-", "*", "(", ")", "0", "/ 0", "<< 70", "- 5", "/ 3", ";", "{", "}", "#", "@",
                   "<", ">", "...", ",", ":", "=", "/*", "/*", "*/", "//", "/* x", "\""]


def tokens(text):
    return [(m.group(0), m.start(), m.end()) for m in TOKEN_RE.finditer(text)]


def _splice(text, s, e, new):
    return text[:s] + new + text[e:]


def classify(tok):
    if tok in KEYWORDS:
        return "kw"
    if re.match(r"^(0x[0-9a-fA-F]+|\d+)$", tok):
        return "lit"
    if re.match(r"^[A-Za-z_]", tok):
        return "id"
    if tok in OPERATORS:
        return "op"
    return "punct"


def apply_text(text, c):
    """token-level and file-level corruptions of prophy-language text"""
    k = c["k"]
    toks = tokens(text)
    if k == "truncate":
        return text[:c["at"] % (len(text) + 1)]
    if k == "empty":
        return ""
    if k == "noise":
        import random
        r = random.Random(c["seed"])
        return "".join(r.choice("abc {};<>[]=0123456789 \n\t*/#\"@:,.") for _ in range(c["n"]))
    if k == "append":
        return text + "\n" + c["text"] + "\n"
    if not toks:
        return text
    i = c.get("i", 0) % len(toks)
    tok, s, e = toks[i]
    if k == "del":
        return _splice(text, s, e, "")
    if k == "dup":
        return _splice(text, s, e, tok + " " + tok)
    if k == "swap":
        if i + 1 >= len(toks):
            return text
        t2, s2, e2 = toks[i + 1]
        return text[:s] + t2 + text[e:s2] + tok + text[e2:]
    if k == "insert":
        return _splice(text, s, s, " " + c["text"] + " ")
    if k == "replace":
        return _splice(text, s, e, c["text"])
    # grammar-aware: pick the j-th token of a class
    cls = {"op": "op", "lit": "lit", "name": "id", "type": None}.get(c.get("cls"))
    if k == "aware":
        want = c["cls"]
        if want == "type":
            # a type position: keyword type or identifier followed by an identifier / '*'
            cands = [n for n in range(len(toks) - 1)
                     if classify(toks[n][0]) in ("kw", "id") and toks[n][0] not in ("const", "enum", "typedef", "struct", "union")
                     and (classify(toks[n + 1][0]) == "id" or toks[n + 1][0] == "*")]
        elif want == "defname":
            cands = [n + 1 for n in range(len(toks) - 1) if toks[n][0] in ("const", "enum", "struct", "union")]
        elif want == "field":
            cands = [n for n in range(1, len(toks) - 1)
                     if classify(toks[n][0]) == "id" and toks[n + 1][0] in (";", "[", "<") and classify(toks[n - 1][0]) in ("kw", "id")]
        elif want == "arr":
            cands = [n for n in range(len(toks)) if toks[n][0] in ("[", "<") and n > 0 and classify(toks[n - 1][0]) == "id"]
        else:
            cands = [n for n in range(len(toks)) if classify(toks[n][0]) == cls]
        if not cands:
            return text
        n = cands[c.get("j", 0) % len(cands)]
        tok, s, e = toks[n]
        if want == "arr":
            # rewrite the bracket group up to its closer
            close = "]" if tok == "[" else ">"
            m = n
            while m < len(toks) and toks[m][0] != close:
                m += 1
            if m >= len(toks):
                return text
            return text[:s] + c["text"] + text[toks[m][2]:]
        return _splice(text, s, e, c["text"])
    raise ValueError(k)


def draw_const_chain(tape, isar=False):
    """a chain of constants each computed from earlier ones (legal text; the values may grow without bound)"""
    n = 2 + tape.draw(12)
    start = tape.pick(["2", "3", "255", "65536", "4294967295", "18446744073709551615", "-1", "0x7fffffff"])
    pure = tape.pick([None, "*", "*", "<<", "+"])
    vals = [start]
    for i in range(1, n):
        a, b = "XC%d" % (i - 1), "XC%d" % tape.draw(i)
        op = pure or tape.pick(["*", "*", "+", "-", "<<", "|", "/"])
        if op == "<<" and not pure:
            b = str(tape.pick([1, 8, 31, 32, 63, 64]))
        if pure:
            b = a
        vals.append("%s %s %s" % (a, op, b))
    user = tape.draw(3)
    last = "XC%d" % (n - 1)
    if isar:
        out = "".join('<constant name="XC%d" value="%s"/>' % (i, v.replace("<<", "&lt;&lt;")) for i, v in enumerate(vals))
        if user == 1:
            out += '<struct name="XCS"><member name="a" type="u8"><dimension size="%s"/></member></struct>' % last
        if user == 2:
            out += '<enum name="XCE"><enum-member name="XCE_A" value="%s"/></enum>' % last
        return out
    out = " ".join("const XC%d = %s;" % (i, v) for i, v in enumerate(vals))
    if user == 1:
        out += " struct XCS { u8 a[%s]; };" % last
    if user == 2:
        out += " enum XCE { XCE_A = %s };" % last
    return out


def draw_isar_graph(tape):
    """isar XML: a small drawn definition graph over a few names, duplicates and cycles included; optionally split so
    that its first elements live in an included file -> {"k": "graph", "text": main part, "inc": included part}"""
    tnames, knames = ["XA", "XB", "XC"], ["XK", "XL"]
    prim = ['primitiveType="32 bit integer unsigned"', 'primitiveType="8 bit integer unsigned"',
            'primitiveType="64 bit integer signed"']
    elems = []
    n = 2 + tape.draw(5)
    # focus: mixed / typedefs over two or three names (re-definitions close cycles that no single definition has) /
    # constants over two names
    focus = tape.weighted([2, 2, 1])
    if focus == 1:
        tnames = ["XA", "XB"] + (["XC"] if tape.chance(1, 4) else [])
    for _ in range(n):
        kind = tape.weighted([[6, 2, 3, 1, 1], [12, 0, 1, 0, 0], [1, 8, 1, 1, 0]][focus])
        if kind == 0:
            nm = tape.pick(tnames)
            if tape.chance(1, 3):
                elems.append('<typedef name="%s" %s/>' % (nm, tape.pick(prim)))
            else:
                pool = tnames if focus == 1 else tnames + tnames + ["XS", "XE", "XU"]
                if not tape.chance(1, 8):      # a definition naming itself is refused at once; keep that rare
                    pool = [x for x in pool if x != nm]
                elems.append('<typedef name="%s" type="%s"/>' % (nm, tape.pick(pool)))
        elif kind == 1:
            elems.append('<constant name="%s" value="%s"/>' % (
                tape.pick(knames), tape.pick(knames + tnames + ["3", "XK + 1", "XL * 2", "XE_A", "XA"])))
        elif kind == 2:
            mt = tape.pick(tnames + tnames + ["u8", "XS", "XU"])
            dim = tape.pick(["", "", "", '<dimension size="%s"/>' % tape.pick(knames + tnames + ["2", "XE_A"]),
                             '<dimension isVariableSize="true" size="%s"/>' % tape.pick(knames + tnames + ["3"])])
            opt = ' optional="true"' if tape.chance(1, 8) else ""
            elems.append('<struct name="%s"><member name="x" type="%s"%s>%s</member></struct>' % (
                tape.pick(["XS", "XS", "XT"]), mt, opt, dim))
        elif kind == 3:
            elems.append('<enum name="XE"><enum-member name="XE_A" value="%s"/></enum>' % tape.pick(["1", "XK", "XE_A", "XL"]))
        else:
            elems.append('<union name="XU"><member name="a" type="%s" discriminatorValue="%s"/></union>' % (
                tape.pick(tnames + ["u8", "XS", "XU"]), tape.pick(["1", "XK", "XE_A"])))
    split = 1 + tape.draw(len(elems)) if tape.chance(1, 3) else 0
    if tape.chance(1, 2):
        inc, main = elems[:split], elems[split:]
    else:
        inc, main = elems[len(elems) - split:] if split else [], elems[:len(elems) - split]
    return {"k": "graph", "text": "".join(main), "inc": "".join(inc)}


def draw_text_corruption(tape, text, names):
    """one corruption for prophy text; names = declared identifiers of the schema"""
    ntok = max(1, len(tokens(text)))
    mode = tape.weighted([3, 12, 2])   # blind / grammar-aware / file-level
    if mode == 0:
        k = tape.pick(["del", "dup", "swap", "insert", "replace"])
        c = {"k": k, "i": tape.draw(ntok)}
        if k == "insert":
            c["text"] = tape.pick(SPECIAL_INSERTS + LITERALS + KEYWORDS)
        if k == "replace":
            c["text"] = tape.pick(SPECIAL_INSERTS + LITERALS + KEYWORDS + (names or ["x"]))
        return c
    if mode == 2:
        k = tape.pick(["truncate", "truncate", "empty", "noise", "append", "append", "append", "chain"])
        c = {"k": k}
        if k == "chain":
            c = {"k": "append", "text": draw_const_chain(tape)}
        if k == "truncate":
            c["at"] = tape.draw(len(text) + 1)
        if k == "noise":
            c["seed"], c["n"] = tape.draw(1 << 20), 1 + tape.draw(120)
        if k == "append":
            nm = tape.pick(names) if names else "X"
            c["text"] = tape.pick([
                "struct %s { u8 a; };" % nm, "const %s = 1;" % nm, "typedef %s %s;" % (nm, nm),
                "struct Rec { Rec r; };", "struct RecA { RecB b; }; struct RecB { RecA a; };",
                "typedef TT1 TT2; typedef TT2 TT1;", "const CA = CB; const CB = CA;",
                "typedef u32 TA; typedef TA TA; struct STA { TA n; u8 x<@n>; };",
                "typedef TX TA; typedef TA TX; struct STA { TA n; u8 x<@n>; };", "typedef TA TA; struct STA { TA a; };",
                "union UU { 1: u8 a; 1: u16 b; };", "union UU { 1: u8 a; 2: u16 a; };",
                "struct SS { u8 a; u8 a; };", "enum EE { EE_A = 1, EE_A = 2 };", "enum EE { EE_A = 1, EE_B = 1 };",
                "const KK = 1 / 0;", "const KK = 7 / 2;", "const KK = 1 << 70;", "const KK = 1 >> 70;",
                "const KK = 1 << -1;" if False else "const KK = 1 << (0 - 1);", "const KK = -(-(-1));",
                "struct SS { u8 a[0]; };", "struct SS { u8 a[1 - 2]; };", "struct SS { u8 a<0>; };",
                "struct SS { u8 n; u8 a<@m>; };", "struct SS { u8 a<@n>; u8 n; };", "struct SS { float n; u8 a<@n>; };",
                "struct SS { u8* n; u8 a<@n>; };", "struct SS { u8 a<...>; u8 b; };",
                "struct GG { u8 g<...>; }; struct SS { GG g; u8 b; };", "struct GG { u8 g<...>; }; struct SS { GG g[2]; };",
                "struct GG { u8 g<...>; }; struct SS { GG g<>; };", "struct DD { u8 d<>; }; struct SS { DD d[2]; };",
                "struct DD { u8 d<>; }; struct SS { DD d<3>; };", "struct DD { u8 d<>; }; struct SS { DD* d; };",
                "struct DD { u8 d<>; }; union UU { 1: DD d; };", "union UU { 4294967296: u8 a; };",
                "enum EE { EE_A = 4294967296 };", "enum EE { EE_A = -1 };", "struct SS { bytes* b; };",
                '#include "nope.prophy"', "#pragma once", "struct SS { };", "enum EE { };", "union UU { };",
                "struct SS { u8 discriminator; };", "struct num_of_x { u8 x<>; };",
            ])
        return c
    cls = tape.pick(["op", "lit", "name", "type", "type", "defname", "field", "arr", "arr"])
    c = {"k": "aware", "cls": cls, "j": tape.draw(64)}
    if cls == "op":
        c["text"] = tape.pick(OPERATORS)
    elif cls == "lit":
        c["text"] = tape.pick(LITERALS)
    elif cls in ("name", "type"):
        c["text"] = tape.pick((names or ["x"]) * 3 + ["Undeclared", "u8", "float", "bytes", "const"])
    elif cls in ("defname", "field"):
        c["text"] = tape.pick((names or ["x"]) + ["u8", "f1", "discriminator", "num_of_f1", "x"])
    else:
        nm = tape.pick(names) if names else "n"
        c["text"] = tape.pick(["[%s]" % nm, "<%s>" % nm, "<>", "<...>", "<@%s>" % nm, "<@f1>", "[0]", "<0>", "[1]", "[2]",
                               "<3>", "[%s + 1]" % nm, "[1 / 2]", "[4294967296]", "<@num_of_f1>"])
    return c


# ---------------------------------------------------------------- isar XML

GRAPH_INCLUDE = '<xi:include href="inc/graph.xml"/>'


def graph_include_text(corruptions):
    """contents of the file that 'graph' corruptions include (None when none of them is split)"""
    parts = [c["inc"] for c in corruptions if c.get("k") == "graph" and c.get("inc")]
    if not parts:
        return None
    return ('<?xml version="1.0" encoding="utf-8"?>\n<dom xmlns:xi="http://www.w3.org/2001/XInclude">\n%s\n</dom>\n'
            % "\n".join(parts))


ISAR_SNIPPETS = [
    '<struct name="SS"><member name="" type="u8"><dimension size="THIS_IS_VARIABLE_SIZE_ARRAY"/></member></struct>',
    '<struct name="SS"><member name="x" type="u8"><dimension size="THIS_IS_VARIABLE_SIZE_ARRAY"/></member></struct>',
    '<struct name="SS"><member name="numOfX" type="u8"/><member name="x" type="u8"><dimension size="THIS_IS_VARIABLE_SIZE_ARRAY"/></member></struct>',
    '<struct name=""><member name="a" type="u8"/></struct>', '<enum name="EE"><enum-member name="" value="1"/></enum>',
    '<union name="UU"><member name="" type="u8" discriminatorValue="1"/></union>', '<typedef name="" type="u8"/>',
    '<constant name="" value="1"/>',
    '<struct name="SS"><member name="a" type="u8"><dimension isVariableSize="true" variableSizeFieldType="r32"/></member></struct>',
    '<struct name="SS"><member name="a" type="u8"><dimension isVariableSize="true" variableSizeFieldName=""/></member></struct>',
    '<struct name="Rec"><member name="r" type="Rec"/></struct>',
    '<struct name="RecA"><member name="b" type="RecB"/></struct><struct name="RecB"><member name="a" type="RecA"/></struct>',
    '<typedef name="TT1" type="TT2"/><typedef name="TT2" type="TT1"/>',
    '<typedef name="TT1" type="TT1"/>',
    '<typedef name="TT1" type="TT1"/><struct name="STT"><member name="a" type="TT1"/></struct>',
    '<typedef name="TT1" type="TT1"/><union name="UTT"><member name="a" type="TT1" discriminatorValue="1"/></union>',
    '<struct name="Rec"><member name="r" type="Rec"><dimension size="2"/></member></struct>',
    '<constant name="CA" value="CB"/><constant name="CB" value="CA"/>',
    '<constant name="CA" value="CA"/>',
    '<constant name="KK" value="7/2"/><struct name="SK"><member name="a" type="u8"><dimension size="KK"/></member></struct>',
    '<constant name="KK" value="1/0"/>', '<constant name="KK" value="shiftLeft(1, 70)"/>',
    '<constant name="KK" value="shiftLeft(1"/>', '<constant name="KK" value=""/>', '<constant name="KK"/>',
    '<constant name="KK" value="1+"/>',
    '<constant name="KK" value="(1"/><struct name="SKK"><member name="a" type="u8"><dimension size="KK"/></member></struct>',
    '<struct name="SKK"><member name="a" type="u8"><dimension size="2*"/></member></struct>',
    '<constant value="1"/>', '<constant name="KK" value="bitMaskOr(1, nope)"/>',
    '<enum name="EE"><enum-member name="EE_A" value="1"/><enum-member name="EE_B" value="1"/></enum>',
    '<enum name="EE"><enum-member name="EE_A" value="abc"/></enum>', '<enum name="EE"><enum-member name="EE_A"/></enum>',
    '<enum name="EE"><enum-member value="1"/></enum>', '<enum name="EE"><enum-member name="EE_A" value="-1"/></enum>',
    '<enum name="EE"><enum-member name="EE_A" value="4294967296"/></enum>',
    '<enum><enum-member name="EE_A" value="1"/></enum>',
    '<typedef name="TP" primitiveType="13 bit integer"/>', '<typedef name="TP"/>', '<typedef primitiveType="8 bit integer unsigned"/>',
    '<struct name="SS"><member name="a"/></struct>', '<struct name="SS"><member type="u8"/></struct>',
    '<struct><member name="a" type="u8"/></struct>',
    '<struct name="SS"><member name="a" type="u8"/><member name="a" type="u8"/></struct>',
    '<struct name="SS"><member name="a" type="u8"><dimension size="abc"/></member></struct>',
    '<struct name="SS"><member name="a" type="u8"><dimension size="0"/></member></struct>',
    '<struct name="SS"><member name="a" type="u8"><dimension size="-1"/></member></struct>',
    '<struct name="SS"><member name="a" type="u8"><dimension/></member></struct>',
    '<struct name="SS"><member name="a" type="u8"><dimension size="2" size2="x"/></member></struct>',
    '<struct name="SS"><member name="a" type="u8"><dimension variableSizeFieldName="@"/></member></struct>',
    '<struct name="SS"><member name="a" type="u8"><dimension variableSizeFieldName="@nope"/></member></struct>',
    '<struct name="SS"><member name="a" type="u8"><dimension isVariableSize="true"/></member></struct>',
    '<struct name="SS"><member name="a" type="u8" optional="true"><dimension size="2"/></member></struct>',
    '<struct name="SS"><member name="a" type="Nope"/></struct>',
    '<union name="UU"><member name="a" type="u8" discriminatorValue="1"/><member name="b" type="u8" discriminatorValue="1"/></union>',
    '<union name="UU"><member name="a" type="u8" discriminatorValue="1"/><member name="a" type="u8" discriminatorValue="2"/></union>',
    '<union name="UU"><member name="a" type="u8"/></union>', '<union name="UU"><member name="a" type="u8" discriminatorValue="x"/></union>',
    '<union><member name="a" type="u8" discriminatorValue="1"/></union>',
    '<message name="MM"><member name="a" type="u8"><dimension isVariableSize="true" size="3"/></member></message>',
    '<xi:include href="nope.xml"/>', '<xi:include href="s.xml"/>', '<xi:include/>',
    '<struct name="SD"><member name="n" type="u32"/><member name="d" type="u8"><dimension variableSizeFieldName="@n"/></member></struct>'
    '<struct name="SS"><member name="d" type="SD"><dimension size="2"/></member></struct>',
]


def apply_xml(text, c):
    k = c["k"]
    if k == "snippet":
        return text.replace("</dom>", c["text"] + "\n</dom>")
    if k == "prolog":
        return re.sub(r'encoding="[^"]*"', 'encoding="%s"' % c["text"], text, count=1)
    if k == "graph":
        text = text.replace("</dom>", c["text"] + "\n</dom>")
        if c.get("inc") and GRAPH_INCLUDE not in text:
            text = re.sub(r"(<dom\b[^>]*>)", lambda m: m.group(1) + "\n" + GRAPH_INCLUDE, text, count=1)
        return text
    if k in ("truncate", "empty", "noise"):
        return apply_text(text, c)
    if k == "attr_del":
        ms = list(re.finditer(r' (name|type|value|size|href|discriminatorValue|primitiveType)="[^"]*"', text))
        if not ms:
            return text
        m = ms[c["i"] % len(ms)]
        return text[:m.start()] + text[m.end():]
    if k == "attr_set":
        ms = list(re.finditer(r' (name|type|value|size|discriminatorValue|primitiveType|variableSizeFieldName)="([^"]*)"', text))
        if not ms:
            return text
        m = ms[c["i"] % len(ms)]
        return text[:m.start(2)] + c["text"] + text[m.end(2):]
    if k == "elem_dup":
        ms = list(re.finditer(r"<(constant|typedef|enum|struct|union)\b.*?(/>|</\1>)", text, re.S))
        if not ms:
            return text
        m = ms[c["i"] % len(ms)]
        return text[:m.end()] + m.group(0) + text[m.end():]
    if k == "tag_break":
        ms = list(re.finditer(r"</?[a-z-]+", text))
        if not ms:
            return text
        m = ms[c["i"] % len(ms)]
        return text[:m.start()] + c["text"] + text[m.end():]
    raise ValueError(k)


def draw_xml_corruption(tape, text, names):
    mode = tape.weighted([8, 4, 4, 2, 2, 1, 5, 1])
    if mode == 6:
        return draw_isar_graph(tape)
    if mode == 7:
        if tape.chance(1, 2):
            return {"k": "prolog", "text": tape.pick(["utf-7", "cp932", "bogus-9", "latin-1", "utf-16", "rot13", "utf-32", "big5",
                                                       "idna", "undefined", "ascii", "UTF-8", ""])}
        return {"k": "snippet", "text": draw_const_chain(tape, isar=True)}
    if mode == 0:
        return {"k": "snippet", "text": tape.pick(ISAR_SNIPPETS)}
    if mode == 1:
        return {"k": "attr_del", "i": tape.draw(256)}
    if mode == 2:
        return {"k": "attr_set", "i": tape.draw(256),
                "text": tape.pick((names or ["x"]) * 2 + ["", "0", "-1", "abc", "1/2", "u8", "Nope", "99999999999999999999", "1+", "(2", "3 *",
                                                         "@", "a b", "shiftLeft(1,2)", "8 bit integer unsigned"])}
    if mode == 3:
        return {"k": "elem_dup", "i": tape.draw(64)}
    if mode == 4:
        return {"k": "tag_break", "i": tape.draw(256), "text": tape.pick(["<", "</", "<x", "", "<struct", "&"])}
    k = tape.pick(["truncate", "empty", "noise"])
    c = {"k": k}
    if k == "truncate":
        c["at"] = tape.draw(len(text) + 1)
    if k == "noise":
        c["seed"], c["n"] = tape.draw(1 << 20), 1 + tape.draw(120)
    return c


# ---------------------------------------------------------------- patch files

def draw_patch(tape, schema):
    """a patch file text: mostly well-formed rules over the schema's structs, sometimes broken ones"""
    structs = [d for d in schema["defs"] if d["k"] == "struct"]
    lines = []
    n = 1 + tape.draw(3)
    for _ in range(n):
        if structs:
            s = tape.pick(structs)
            m = tape.pick(s["members"])
            sname, mname = s["name"], m["name"]
        else:
            sname, mname = "Nope", "x"
        kind = tape.draw(21)
        if kind == 19:
            lines.append("%s insert %s extra u8" % (sname, tape.pick(["99999999999999999999999999", "-99999999999999999999999999",
                                                                     "4294967296", "-1", "2"])))
        elif kind == 20:
            lines.append("%s type %s %s" % (sname, mname, tape.pick(["r32", "float", "Nope", "u8", sname])))
        elif kind == 0:
            lines.append("%s type %s u32" % (sname, mname))
        elif kind == 1:
            lines.append("%s insert 0 extra u8" % sname)
        elif kind == 2:
            lines.append("%s remove %s" % (sname, mname))
        elif kind == 3:
            lines.append("%s rename %s renamed" % (sname, mname))
        elif kind == 4:
            lines.append("%s dynamic %s %s" % (sname, mname, mname))
        elif kind == 5:
            lines.append("%s greedy %s" % (sname, mname))
        elif kind == 6:
            lines.append("%s static %s 3" % (sname, mname))
        elif kind == 7:
            lines.append("%s limited %s %s" % (sname, mname, mname))
        elif kind == 8:
            lines.append("%s frobnicate %s" % (sname, mname))          # unknown action
        elif kind == 9:
            lines.append("%s type %s" % (sname, mname))               # wrong arity
        elif kind == 10:
            lines.append(sname)                                        # one-word line
        elif kind == 11:
            lines.append("%s insert abc extra u8" % sname)             # non-integer index
        elif kind == 12:
            lines.append("%s remove nosuchmember" % sname)
        elif kind == 13:
            lines.append("Absent type x u8")                           # rule naming an absent message: ignored
        elif kind == 14:
            lines.append("%s static %s abc" % (sname, mname))
        elif kind == 15:
            lines.append("%s rename renamed_struct" % sname)
        elif kind == 16:
            lines.append("%s static %s 1+" % (sname, mname))
        elif kind == 17:
            others = [d["name"] for d in schema["defs"] if d["name"] != sname]
            lines.append("%s rename %s" % (sname, tape.pick(others) if others else "u8"))   # duplicate definition names
        else:
            tds = [d["name"] for d in schema["defs"] if d["k"] in ("typedef", "struct", "union", "enum")]
            a = tape.pick(tds) if tds else sname
            b = tape.pick(tds) if tds else sname
            lines.append("%s rename %s" % (a, b))
    return "\n".join(lines) + "\n"
