"""Renderers: schema AST -> prophy-language text and isar XML."""

PROPHY_BUILTIN = {"r32": "float", "r64": "double", "byte": "bytes"}
ISAR_PRIMITIVE = {"u8": "8 bit integer unsigned", "u16": "16 bit integer unsigned",
                  "u32": "32 bit integer unsigned", "u64": "64 bit integer unsigned",
                  "i8": "8 bit integer signed", "i16": "16 bit integer signed",
                  "i32": "32 bit integer signed", "i64": "64 bit integer signed",
                  "r32": "32 bit float", "r64": "64 bit float"}


def _tn(t):
    return PROPHY_BUILTIN.get(t, t)


def member_text(m):
    t = _tn(m["type"])
    n = m["name"]
    if m["opt"]:
        return "%s* %s;" % (t, n)
    a = m["arr"]
    if a is None:
        return "%s %s;" % (t, n)
    if a == "fixed":
        return "%s %s[%s];" % (t, n, m["ntext"])
    if a == "limited":
        return "%s %s<%s>;" % (t, n, m["ntext"])
    if a == "dynamic":
        return "%s %s<>;" % (t, n)
    if a == "greedy":
        return "%s %s<...>;" % (t, n)
    if a == "ext":
        return "%s %s<@%s>;" % (t, n, m["sizer"])
    raise ValueError(a)


def def_text(d):
    k = d["k"]
    if k == "const":
        return "const %s = %s;\n" % (d["name"], d["expr"])
    if k == "enum":
        body = ",\n".join("    %s = %s" % (m[0], m[2] if len(m) > 2 else m[1]) for m in d["members"])
        return "enum %s\n{\n%s\n};\n" % (d["name"], body)
    if k == "typedef":
        return "typedef %s %s;\n" % (_tn(d["type"]), d["name"])
    if k == "struct":
        body = "".join("    %s\n" % member_text(m) for m in d["members"])
        return "struct %s\n{\n%s};\n" % (d["name"], body)
    if k == "union":
        body = "".join("    %s: %s %s;\n" % (a.get("dtext", a["disc"]), _tn(a["type"]), a["name"]) for a in d["arms"])
        return "union %s\n{\n%s};\n" % (d["name"], body)
    raise ValueError(k)


def prophy_text(schema, includes=()):
    out = "".join('#include "%s"\n' % i for i in includes)
    return out + "\n".join(def_text(d) for d in schema["defs"])


# ---------------------------------------------------------------- isar

def isar_expressible(schema):
    """isar XML (without patch) cannot say: greedy arrays, ext-sized arrays sharing/naming an
    arbitrary sizer are fine (@name), 'bytes' type (no byte builtin), float is fine."""
    for d in schema["defs"]:
        if d["k"] == "struct":
            for m in d["members"]:
                if m["arr"] == "greedy" or m["type"] == "byte":
                    return False
                if m["opt"] and m["arr"]:
                    return False
    return True


def _x(s):
    return str(s).replace("&", "&amp;").replace("<", "&lt;").replace(">", "&gt;").replace('"', "&quot;")


def isar_def(d):
    """-> (category, xml text); category in constant/typedef/enum/struct/union"""
    k = d["k"]
    if k == "const":
        return '<constant name="%s" value="%s"/>' % (d["name"], _x(d["expr"]))
    if k == "enum":
        body = "".join('<enum-member name="%s" value="%s"/>' % (m[0], m[2] if len(m) > 2 else m[1]) for m in d["members"])
        return '<enum name="%s">%s</enum>' % (d["name"], body)
    if k == "typedef":
        t = d["type"]
        if t in ISAR_PRIMITIVE:
            return '<typedef name="%s" primitiveType="%s"/>' % (d["name"], ISAR_PRIMITIVE[t])
        return '<typedef name="%s" type="%s"/>' % (d["name"], t)
    if k == "union":
        body = "".join('<member name="%s" type="%s" discriminatorValue="%s"/>' % (a["name"], a["type"], a.get("dtext", a["disc"]))
                       for a in d["arms"])
        return '<union name="%s">%s</union>' % (d["name"], body)
    if k == "struct":
        body = ""
        for m in d["members"]:
            a = m["arr"]
            attrs = 'name="%s" type="%s"' % (m["name"], m["type"])
            if m["opt"]:
                body += '<member %s optional="true"/>' % attrs
            elif a is None:
                body += '<member %s/>' % attrs
            elif a == "fixed":
                body += '<member %s><dimension size="%s"/></member>' % (attrs, _x(m["ntext"]))
            elif a == "limited":
                body += ('<member %s><dimension size="%s" isVariableSize="true" '
                         'variableSizeFieldName="num_of_%s"/></member>' % (attrs, _x(m["ntext"]), m["name"]))
            elif a == "dynamic":
                # <message> semantic is not used: a limited form with dynamic patch is C17's domain.
                # plain isar: sizer + bound array without size is written with '@' after an explicit sizer
                body += '<member name="num_of_%s" type="u32"/>' % m["name"]
                body += ('<member %s><dimension variableSizeFieldName="@num_of_%s"/></member>'
                         % (attrs, m["name"]))
            elif a == "ext":
                body += '<member %s><dimension variableSizeFieldName="@%s"/></member>' % (attrs, m["sizer"])
            else:
                raise ValueError("not expressible in isar: %s" % a)
        return '<struct name="%s">%s</struct>' % (d["name"], body)
    raise ValueError(k)


def isar_text(defs, includes=()):
    inc = "".join('<xi:include href="%s"/>' % i for i in includes)
    body = "\n".join(isar_def(d) for d in defs)
    return ('<?xml version="1.0" encoding="utf-8"?>\n<dom xmlns:xi="http://www.w3.org/2001/XInclude">\n'
            '%s\n%s\n</dom>\n' % (inc, body))
