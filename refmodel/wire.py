"""Reference encoder (Appendix A.2): value tree -> canonical bytes + byte-range map.

Tree conventions: struct -> dict(member name -> value), sizer members of ext-sized arrays and the
implicit counters are not part of the tree; optional -> None | value; union -> {"@arm": name, "v": value};
arrays -> list; bytes -> bytes; enum -> int; ints/floats -> int/float.
"""
import struct as _struct

from .types import roundup, FIXED


class RefuseEncode(Exception):
    """arrays sharing one sizer have unequal lengths: the one documented encode-time refusal"""


class CounterOverflow(Exception):
    """an element count does not fit its sizer's type (docs are silent; harness avoids / classifies)"""


def enc_scalar(t, v, e):
    if t.cat == "enum":
        return int(v).to_bytes(4, "little" if e == "<" else "big")
    if t.is_float:
        return _struct.pack(e + ("f" if t.size == 4 else "d"), v)
    return int(v).to_bytes(t.size, "little" if e == "<" else "big", signed=t.signed)


class _Out(object):
    def __init__(self, e):
        self.e = e
        self.buf = bytearray()
        self.map = []       # (start, end, kind, width, path)

    def pad_to(self, a, path):
        n = roundup(len(self.buf), a) - len(self.buf)
        if n:
            self.mark(b"\x00" * n, "padding", 1, path)

    def mark(self, data, kind, width, path, info=None):
        if not data:
            return
        s = len(self.buf)
        self.buf += data
        self.map.append((s, s + len(data), kind, width, path, info))


def _enc_value(out, t, v, path):
    if t.cat == "scalar":
        out.mark(enc_scalar(t, v, out.e), "scalar", t.size, path)
    elif t.cat == "enum":
        out.mark(enc_scalar(t, v, out.e), "enum", 4, path, {"known": sorted(t.by_value)})
    elif t.cat == "struct":
        _enc_struct(out, t, v, path)
    elif t.cat == "union":
        _enc_union(out, t, v, path)
    else:
        raise TypeError(t)


def _enc_union(out, t, v, path):
    start = len(out.buf)
    name, at, disc = t.by_name[v["@arm"]]
    out.mark(int(disc).to_bytes(4, "little" if out.e == "<" else "big"), "discriminator", 4, path,
             {"known": sorted(t.by_disc)})
    n = t.align - 4
    if n:
        out.mark(b"\x00" * n, "padding", 1, path + "/discpad")
    _enc_value(out, at, v["v"], path + "." + name)
    rest = start + t.size - len(out.buf)
    assert rest >= 0
    if rest:
        out.mark(b"\x00" * rest, "padding", 1, path + "/armfill")


def _count_bytes(t, n, e, path):
    if not (t.lo <= n <= t.hi):
        raise CounterOverflow(path)
    return int(n).to_bytes(t.size, "little" if e == "<" else "big", signed=t.signed)


def _enc_elems(out, m, v, path):
    if m.is_bytes:
        out.mark(bytes(v), "bytes", 1, path)
    else:
        for i, x in enumerate(v):
            _enc_value(out, m.type, x, "%s[%d]" % (path, i))


def _enc_struct(out, t, v, path):
    for it in t.items:
        m = it.member
        p = path + "." + m.name
        if it.block_align:
            out.pad_to(it.block_align, p + "/blockpad")
        out.pad_to(it.align, p + "/pad")
        w = it.what
        if w == "plain":
            _enc_value(out, m.type, v[m.name], p)
        elif w == "sizer":
            lens = set(len(v[a]) for a in m.sizes)
            if len(lens) != 1:
                raise RefuseEncode(p)
            out.mark(_count_bytes(m.type, lens.pop(), out.e, p), "sizer", m.type.size, p)
        elif w == "counter":
            out.mark(len(v[m.name]).to_bytes(4, "little" if out.e == "<" else "big"), "counter", 4, p,
                     {"limit": m.n if m.arr == "limited" else None})
        elif w == "elems":
            _enc_elems(out, m, v[m.name], p)
        elif w == "fixedarr":
            if m.is_bytes:
                out.mark(bytes(v[m.name]).ljust(m.n, b"\x00"), "bytes", 1, p)
            else:
                _enc_elems(out, m, v[m.name], p)
        elif w == "slot":
            s = len(out.buf)
            _enc_elems(out, m, v[m.name], p)
            rest = s + it.fixed_size - len(out.buf)
            assert rest >= 0, (p, rest)
            if rest:
                out.mark(b"\x00" * rest, "padding", 1, p + "/slotfill")
        elif w == "opt":
            x = v[m.name]
            if x is None:
                out.mark(b"\x00" * 4, "flag", 4, p)
                out.mark(b"\x00" * (it.fixed_size - 4), "padding", 1, p + "/absent")
            else:
                out.mark((1).to_bytes(4, "little" if out.e == "<" else "big"), "flag", 4, p)
                n = it.align - 4
                if n:
                    out.mark(b"\x00" * n, "padding", 1, p + "/flagpad")
                _enc_value(out, m.type, x, p)
        else:
            raise ValueError(w)
    out.pad_to(t.align, path + "/endpad")


def encode(t, tree, e, with_map=False):
    assert e in "<>"
    out = _Out(e)
    _enc_value(out, t, tree, "")
    if with_map:
        return bytes(out.buf), out.map
    return bytes(out.buf)


def greedy_tail_aligned(t, tree):
    """C02's side condition: every greedy tail ends on the alignment of every enclosing struct, i.e. no end
    padding follows a greedy array at any nesting level."""
    if not _has_greedy(t):
        return True
    _, m = encode(t, tree, "<", with_map=True)
    # after the greedy elements only '/endpad' paddings of the enclosing structs can follow;
    # the tail ends aligned iff none does
    return not (m and m[-1][2] == "padding" and m[-1][4].endswith("/endpad"))


def _has_greedy(t):
    while t.cat == "struct" and t.members:
        m = t.members[-1]
        if m.arr == "greedy":
            return True
        if m.arr or m.opt:
            return False
        t = m.type
    return False


def check_map(data, m):
    """the map tiles the encoding exactly"""
    pos = 0
    for s, e, kind, width, path, _info in m:
        assert s == pos and e > s, (s, pos, kind, path)
        if kind in ("scalar", "enum", "flag", "discriminator", "counter", "sizer"):
            assert e - s == width
        pos = e
    assert pos == len(data)


def compare_orders(le, be, m):
    """C19's relation between the two byte orders, given the map. -> None | (start, end, kind, path)"""
    if len(le) != len(be):
        return (0, 0, "length", "")
    for s, e, kind, width, path, _info in m:
        if kind == "padding":
            if any(le[s:e]) or any(be[s:e]):
                return (s, e, kind, path)
        elif kind == "bytes":
            if le[s:e] != be[s:e]:
                return (s, e, kind, path)
        else:
            if le[s:e] != be[s:e][::-1]:
                return (s, e, kind, path)
    return None
