"""Reference message model (Appendix A.4): plain trees and the acceptance rules of the public API.

A rejected operation raises Reject(kind) *before* touching the tree; kind says which exception classes the
statement of C10 allows for it:
  value   -> ProphyError only (bad element / field value, limit exceeded, assignment to composite or array,
             non-discriminated arm, unknown discriminator)
  index   -> ProphyError | IndexError | ValueError  (bad index)
  missing -> ProphyError | ValueError | IndexError  (remove of a missing element)
  slice   -> ProphyError | ValueError               (extended slice / fixed array length mismatch)
  attr    -> AttributeError                         (attribute that does not exist: a sizer / counter)
"""
import copy
import struct as _struct


class Reject(Exception):
    def __init__(self, kind, why=""):
        Exception.__init__(self, kind, why)
        self.kind = kind
        self.why = why


def default_value(t):
    if t.cat == "scalar":
        return t.default()
    if t.cat == "enum":
        return t.default()
    return default_tree(t)


def default_tree(t):
    if t.cat == "union":
        name, at, _ = t.arms[0]
        return {"@arm": name, "v": default_value(at)}
    tree = {}
    for m in t.members:
        if m.sizes:
            continue
        if m.is_bytes:
            tree[m.name] = b"\x00" * m.n if m.arr == "fixed" else b""
        elif m.arr == "fixed":
            tree[m.name] = [default_value(m.type) for _ in range(m.n)]
        elif m.arr:
            tree[m.name] = []
        elif m.opt:
            tree[m.name] = None
        else:
            tree[m.name] = default_value(m.type)
    return tree


def clone(tree):
    return copy.deepcopy(tree)


# ------------------------------------------------------------------ value acceptance

def check_scalar(t, v):
    """Acceptance rule for one scalar / enum value. -> stored value"""
    if t.cat == "enum":
        if type(v) is str:
            if v not in t.by_name:
                raise Reject("value", "unknown enumerator name")
            return t.by_name[v]
        if type(v) is int:
            if v not in t.by_value:
                raise Reject("value", "unknown enumerator value")
            return v
        raise Reject("value", "neither string nor int")
    if type(v) is bool and t.cat != "enum":
        v = float(v) if t.is_float else int(v)      # a bool is an int; what is stored is the number
    if t.is_float:
        if type(v) not in (int, float):
            raise Reject("value", "not a float")
        if t.size == 4:
            try:
                _struct.pack("<f", v)
            except (OverflowError, _struct.error):
                raise Reject("value", "float32 overflow")
        else:
            try:
                _struct.pack("<d", v)
            except (OverflowError, _struct.error):
                raise Reject("value", "float64 overflow")
        return v
    if type(v) is not int:
        raise Reject("value", "not an int")
    if not (t.lo <= v <= t.hi):
        raise Reject("value", "out of range")
    return v


def check_bytes(m, v):
    if type(v) is not bytes:
        raise Reject("value", "not bytes")
    if m.arr in ("fixed", "limited") and len(v) > m.n:
        raise Reject("value", "too long")
    if m.arr == "fixed":
        return v.ljust(m.n, b"\x00")
    return v


# ------------------------------------------------------------------ list semantics

def _norm_index(lst, i):
    if type(i) is not int:
        raise Reject("index", "index type")
    if not (-len(lst) <= i < len(lst)):
        raise Reject("index", "index out of range")
    return i


def arr_append(m, lst, v):
    v = check_scalar(m.type, v)
    if m.arr == "limited" and len(lst) >= m.n:
        raise Reject("value", "limit")
    lst.append(v)


def arr_insert(m, lst, i, v):
    v = check_scalar(m.type, v)
    if m.arr == "limited" and len(lst) >= m.n:
        raise Reject("value", "limit")
    lst.insert(i, v)


def arr_extend(m, lst, vs):
    vs = [check_scalar(m.type, v) for v in vs]
    if m.arr == "limited" and len(lst) + len(vs) > m.n:
        raise Reject("value", "limit")
    lst.extend(vs)


def arr_setitem(m, lst, i, v):
    i = _norm_index(lst, i)      # a bad index together with a bad value may be refused for either reason
    v = check_scalar(m.type, v)
    lst[i] = v


def arr_setslice(m, lst, sl, vs):
    vs = [check_scalar(m.type, v) for v in vs]
    new = list(lst)
    try:
        new[sl] = vs
    except ValueError:
        raise Reject("slice", "extended slice size mismatch")
    if m.arr == "fixed" and len(new) != len(lst):
        raise Reject("slice", "fixed array length change")
    if m.arr == "limited" and len(new) > m.n:
        raise Reject("value", "limit")
    lst[:] = new


def arr_delitem(m, lst, i):
    i = _norm_index(lst, i)
    del lst[i]


def arr_delslice(m, lst, sl):
    del lst[sl]


def arr_remove(m, lst, v):
    if v not in lst:
        raise Reject("missing", "not in list")
    lst.remove(v)


# ------------------------------------------------------------------ floats after a wire round trip

def wire_round(t, tree):
    """The tree as it reads back after encode/decode: r32 values rounded to single precision, ints in float
    fields become floats."""
    if t.cat == "scalar":
        if t.is_float:
            return _struct.unpack("<f", _struct.pack("<f", tree))[0] if t.size == 4 else float(tree)
        return tree
    if t.cat == "enum":
        return tree
    if t.cat == "union":
        name, at, _ = t.by_name[tree["@arm"]]
        return {"@arm": name, "v": wire_round(at, tree["v"])}
    out = {}
    for m in t.members:
        if m.sizes:
            continue
        v = tree[m.name]
        if m.is_bytes:
            out[m.name] = v
        elif m.arr:
            out[m.name] = [wire_round(m.type, x) for x in v]
        elif m.opt:
            out[m.name] = None if v is None else wire_round(m.type, v)
        else:
            out[m.name] = wire_round(m.type, v)
    return out


def abstract_digest(t, tree):
    """Digest of the abstract state: shape (lengths, presence, arms) plus value classes, not exact values."""
    import hashlib

    def ab(t, v):
        if t.cat == "scalar":
            if t.is_float:
                return "f"
            return "0" if v == 0 else ("H" if v == t.hi else ("L" if v == t.lo else "x"))
        if t.cat == "enum":
            return "e%d" % [x for _, x in t.members].index(v)
        if t.cat == "union":
            name, at, _ = t.by_name[v["@arm"]]
            return "U(%s:%s)" % (name, ab(at, v["v"]))
        parts = []
        for m in t.members:
            if m.sizes:
                continue
            x = v[m.name]
            if m.is_bytes:
                parts.append("b%d" % len(x))
            elif m.arr:
                parts.append("[%s]" % ",".join(ab(m.type, y) for y in x))
            elif m.opt:
                parts.append("-" if x is None else "+" + ab(m.type, x))
            else:
                parts.append(ab(m.type, x))
        return "S(" + " ".join(parts) + ")"
    return hashlib.sha1(ab(t, tree).encode()).hexdigest()[:12]
