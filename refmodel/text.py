"""Reference text rendering (Appendix A.3)."""

FLOAT_MASK = "<float>"


def esc_bytes(b):
    out = []
    for c in bytes(b):
        if c == 9:
            out.append("\\t")
        elif c == 10:
            out.append("\\n")
        elif c == 13:
            out.append("\\r")
        elif c == 92:
            out.append("\\\\")
        elif 32 <= c <= 126:
            out.append(chr(c))
        else:
            out.append("\\x%02x" % c)
    return "'" + "".join(out) + "'"


def _indent(text):
    return "".join("  " + line + "\n" for line in text.split("\n") if line)


def render_field(name, t, v, mask_floats=True):
    if t.cat == "scalar":
        if t.is_float:
            return "%s: %s\n" % (name, FLOAT_MASK if mask_floats else repr(v))
        return "%s: %d\n" % (name, v)
    if t.cat == "enum":
        return "%s: %s\n" % (name, t.by_value[v])
    return "%s {\n%s}\n" % (name, _indent(render(t, v, mask_floats)))


def render(t, tree, mask_floats=True):
    if t.cat == "union":
        name, at, _ = t.by_name[tree["@arm"]]
        return render_field(name, at, tree["v"], mask_floats)
    out = []
    for m in t.members:
        if m.sizes:
            continue
        v = tree[m.name]
        if m.is_bytes:
            out.append("%s: %s\n" % (m.name, esc_bytes(v)))
        elif m.arr:
            for x in v:
                out.append(render_field(m.name, m.type, x, mask_floats))
        elif m.opt:
            if v is not None:
                out.append(render_field(m.name, m.type, v, mask_floats))
        else:
            out.append(render_field(m.name, m.type, v, mask_floats))
    return "".join(out)


def text_matches(ref_masked, impl):
    """Compare an implementation's rendering with the reference rendering, ignoring the value part of
    lines the reference marks as floating point."""
    a = ref_masked.split("\n")
    b = impl.split("\n")
    if len(a) != len(b):
        return False
    for x, y in zip(a, b):
        if x.endswith(FLOAT_MASK):
            if not y.startswith(x[:-len(FLOAT_MASK)]):
                return False
        elif x != y:
            return False
    return True
