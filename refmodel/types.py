"""Reference layout model, written from docs/encoding.rst and docs/schema.rst (Appendix A.1 of DESIGN.md).

Nothing here imports prophy or prophyc.
"""

FIXED, DYNAMIC, UNLIMITED = 0, 1, 2
STIFF_NAME = {0: "FIXED", 1: "DYNAMIC", 2: "UNLIMITED"}

_BUILTINS = {
    "u8": (1, False, False), "u16": (2, False, False), "u32": (4, False, False), "u64": (8, False, False),
    "i8": (1, True, False), "i16": (2, True, False), "i32": (4, True, False), "i64": (8, True, False),
    "r32": (4, True, True), "r64": (8, True, True), "byte": (1, False, False),
}


def roundup(x, a):
    return (x + a - 1) // a * a


class RScalar(object):
    cat = "scalar"
    stiff = FIXED

    def __init__(self, name, width, signed, is_float):
        self.name = name
        self.size = self.align = width
        self.signed = signed
        self.is_float = is_float

    @property
    def lo(self):
        return -(1 << (8 * self.size - 1)) if self.signed else 0

    @property
    def hi(self):
        return (1 << (8 * self.size - 1)) - 1 if self.signed else (1 << (8 * self.size)) - 1

    def default(self):
        return 0.0 if self.is_float else 0


class REnum(object):
    cat = "enum"
    stiff = FIXED
    size = align = 4

    def __init__(self, name, members):
        self.name = name
        self.members = [(m[0], m[1]) for m in members]
        self.by_name = dict(self.members)
        self.by_value = {}
        for n, v in self.members:
            self.by_value.setdefault(v, n)

    def default(self):
        return self.members[0][1]


class RMember(object):
    def __init__(self, name, type_, arr=None, n=None, sizer=None, opt=False, is_bytes=False):
        self.name = name
        self.type = type_
        self.arr = arr
        self.n = n
        self.sizer = sizer
        self.opt = opt
        self.is_bytes = is_bytes
        self.sizes = []      # names of ext arrays this member is the sizer of

    @property
    def kind(self):
        if self.sizes:
            return "sizer"
        if self.opt:
            return "optional"
        if self.is_bytes:
            return "bytes_" + (self.arr or "?")
        if self.arr:
            return "array_" + self.arr
        return self.type.cat


class WireItem(object):
    """one member of the wire sequence of a struct"""
    __slots__ = ("what", "member", "align", "ends_block", "block_align", "fixed_size")

    def __init__(self, what, member, align, ends_block, fixed_size):
        self.what = what                  # plain | sizer | counter | elems | slot | fixedarr | opt
        self.member = member
        self.align = align
        self.ends_block = ends_block
        self.fixed_size = fixed_size      # None when the item has variable length
        self.block_align = None           # set on the first item of every block but the first


class RStruct(object):
    cat = "struct"

    def __init__(self, name, members):
        self.name = name
        self.members = members
        self.by_name = {m.name: m for m in members}
        for m in members:
            if m.arr == "ext":
                self.by_name[m.sizer].sizes.append(m.name)
        self._layout()

    def _layout(self):
        items = []
        stiff = FIXED
        for m in self.members:
            t = m.type
            if m.arr == "dynamic":
                items.append(WireItem("counter", m, 4, False, 4))
                items.append(WireItem("elems", m, t.align, True, None))
                stiff = max(stiff, DYNAMIC)
            elif m.arr == "limited":
                items.append(WireItem("counter", m, 4, False, 4))
                items.append(WireItem("slot", m, t.align, False, m.n * t.size))
            elif m.arr == "fixed":
                items.append(WireItem("fixedarr", m, t.align, False, m.n * t.size))
            elif m.arr == "greedy":
                items.append(WireItem("elems", m, t.align, True, None))
                stiff = max(stiff, UNLIMITED)
            elif m.arr == "ext":
                items.append(WireItem("elems", m, t.align, True, None))
                stiff = max(stiff, DYNAMIC)
            elif m.opt:
                a = max(4, t.align)
                items.append(WireItem("opt", m, a, False, a + t.size))
            elif m.sizes:
                items.append(WireItem("sizer", m, t.align, False, t.size))
            else:
                dyn = t.stiff != FIXED
                items.append(WireItem("plain", m, t.align, dyn, None if dyn else t.size))
                stiff = max(stiff, t.stiff)
        self.items = items
        self.stiff = stiff
        self.align = max([1] + [it.align for it in items])
        # block alignment: the first item of each later block carries the greatest alignment of its block
        start = 0
        first_block = True
        for i, it in enumerate(items):
            if it.ends_block or i == len(items) - 1:
                if not first_block:
                    items[start].block_align = max(x.align for x in items[start:i + 1])
                first_block = False
                start = i + 1
        if stiff == FIXED:
            off = 0
            for it in items:
                off = roundup(off, it.align) + it.fixed_size
            self.size = roundup(off, self.align)
        else:
            self.size = None
        # size of the fixed parts only (what prophyc calls byte_size for non-fixed structs) is not defined by the
        # docs; not modelled.

    def default(self):
        return None   # trees are built by refmodel.msgmodel.default_tree


class RUnion(object):
    cat = "union"
    stiff = FIXED

    def __init__(self, name, arms):
        self.name = name
        self.arms = arms              # [(name, type, disc)]
        self.align = max([4] + [t.align for _, t, _ in arms])
        self.size = roundup(self.align + max(t.size for _, t, _ in arms), self.align)
        self.by_name = {n: (n, t, d) for n, t, d in arms}
        self.by_disc = {d: (n, t, d) for n, t, d in arms}


def builtin(name):
    w, s, f = _BUILTINS[name]
    return RScalar(name, w, s, f)


class Resolved(object):
    """All types of one schema, resolved through typedefs."""

    def __init__(self, schema):
        self.types = {}       # name -> RScalar/REnum/RStruct/RUnion (typedefs map to their target object)
        self.consts = {}
        self.order = []       # composite and enum names in definition order (typedef names excluded)
        self.typedefs = {}
        for b in _BUILTINS:
            self.types[b] = builtin(b)
        for d in schema["defs"]:
            k = d["k"]
            if k == "const":
                self.consts[d["name"]] = d["value"]
            elif k == "enum":
                self.types[d["name"]] = REnum(d["name"], d["members"])
                for n, v in [(m[0], m[1]) for m in d["members"]]:
                    self.consts[n] = v
                self.order.append(d["name"])
            elif k == "typedef":
                self.types[d["name"]] = self.types[d["type"]]
                self.typedefs[d["name"]] = d["type"]
            elif k == "union":
                arms = [(a["name"], self.types[a["type"]], a["disc"]) for a in d["arms"]]
                self.types[d["name"]] = RUnion(d["name"], arms)
                self.order.append(d["name"])
            elif k == "struct":
                members = []
                for m in d["members"]:
                    members.append(RMember(m["name"], self.types[m["type"]], m["arr"], m.get("n"),
                                           m.get("sizer"), m["opt"], m["type"] == "byte"))
                self.types[d["name"]] = RStruct(d["name"], members)
                self.order.append(d["name"])

    def composites(self):
        return [n for n in self.order if self.types[n].cat in ("struct", "union")]


def ends_aligned(t, tree):
    """C02's side condition is evaluated on encodings (see wire.greedy_tail_aligned)."""
    raise NotImplementedError
