"""Per-property check definitions: which simulation arms decide it, at which budgets."""
from sim.runner import Arm

REAL_STUB_PY = {
    "real": ["prophyc (parser, model, python generator, file processor, options) run in-process through prophyc.main",
             "prophy runtime (all modules)", "generated Python module executed against the real runtime", "ply", "renew"],
    "stub": ["file system (in-memory tree behind the os/codecs module globals of prophyc)",
             "caller-supplied iterables (harness objects, some of them faulting)"],
}

ASSUME_REF = [
    "the reference model in /verif/refmodel is a faithful reading of docs/encoding.rst, docs/schema.rst and "
    "docs/python_codec.rst (pinned by the documentation's own examples in selftest/fixtures)",
    "schemas are drawn from the generator in gen/schema.py (<= 10 definitions, <= 8 members, nesting <= 4)",
]


def _hist(prop, q, t):
    from props import pymsg
    return Arm(pymsg, "hist", q, t, label="S-HIST")


RULE_HIST = ("each run draws a schema (swarm-selected features), compiles it with the real prophyc into a simulated "
             "file system, imports the generated module, and executes a drawn history of public API operations on two "
             "live messages against the reference message model; distinct = distinct (schema-shape digest, "
             "abstract-state digest) pairs observed with both encodings compared; non-trivial excludes schemas that are "
             "a single scalar-only struct and histories without an accepted mutation")


PROBES = {
    "hist": ["union_switch", "limited_full_append", "limited_full_add", "long_extend", "slice_with_step",
             "extend_bad_elem_after_good_prefix", "extend_composite_from_live_elements",
             "copy_src_present_optional_composite", "copy_src_limited_composite_array", "unequal_lengths_on_shared_sizer",
             "count_exceeds_sizer_type", "add_with_array_keyword"],
    "order": ["definition_with_3plus_dependencies", "patched_dependency_edge"],
    "fs": ["include_diamond", "include_through_second_spelling", "decoy_later_in_search_order", "compiled_from_other_cwd",
           "include_with_subdirectory_found_through_-I", "one_invocation_per_file", "empty_header_included_twice",
           "include_named_like_a_definition"],
    "linkcpp": ["limited_array_over_limit", "optional_of_struct_holding_vector"],
}


def get(prop):
    f = globals().get("_" + prop)
    if not f:
        return None
    spec = f()
    exp = []
    for arm in spec["arms"]:
        exp += PROBES.get(arm.name, [])
    spec["expected_probes"] = exp
    return spec


def _C10():
    return {"arms": [_hist("C10", 24000, 450000)], "level": "exploration", "rule": RULE_HIST,
            "assumptions": ASSUME_REF, "real_stub": REAL_STUB_PY}


def _C11():
    return {"arms": [_hist("C11", 24000, 450000)], "level": "exploration", "rule": RULE_HIST,
            "assumptions": ASSUME_REF, "real_stub": REAL_STUB_PY}


def _C01():
    return {"arms": [_hist("C01", 30000, 500000)], "level": "exploration", "rule": RULE_HIST,
            "assumptions": ASSUME_REF, "real_stub": REAL_STUB_PY}


def _C02():
    from props import linkpy
    return {"arms": [_hist("C02", 30000, 500000), Arm(linkpy, "linkpy", 4000, 60000, label="S-LINK/py control arm")], "level": "exploration", "rule": RULE_HIST,
            "assumptions": ASSUME_REF, "real_stub": REAL_STUB_PY}


def _C18():
    return {"arms": [_hist("C18", 30000, 500000), _cpp("C18", 48, 1000)], "level": "exploration", "rule": RULE_HIST,
            "assumptions": ASSUME_REF, "real_stub": REAL_STUB_PY}


def _C19():
    return {"arms": [_hist("C19", 30000, 500000), _cpp("C19", 48, 1000)], "level": "exploration", "rule": RULE_HIST,
            "assumptions": ASSUME_REF, "real_stub": REAL_STUB_PY}


RULE_LINK = ("each run draws a schema and 1-2 values, encodes them with the reference encoder in both byte orders and "
             "applies the complete fault enumeration of sim/link.py to every encoding: every prefix (encodings <= 256 "
             "bytes, else 64 boundary-biased cuts), 1-8 trailing bytes (zero / garbage / copy of the tail), every single "
             "bit flip (<= 32 bytes, else 64 drawn, half inside control words), every control word (counter, sizer, "
             "flag, discriminator, enum) overwritten with each boundary value, pairs of a control-word corruption with "
             "a truncation, random strings; distinct = distinct (schema-shape digest, fault kind, kind of byte range "
             "hit, outcome) tuples; every run with at least one faulted decode is non-trivial")


def _C06():
    from props import linkpy
    return {"arms": [Arm(linkpy, "linkpy", 1600, 30000, label="S-LINK/py")], "level": "fault_enumeration",
            "rule": RULE_LINK,
            "assumptions": ASSUME_REF + [
                "step clock = line events in frames of /repo and generated modules; budget 4000 + 400 per input byte "
                "(+ static size), about 40x the worst intact decode",
                "memory meter = tracemalloc peak around the decode of control-word corruptions, random strings and a "
                "quarter of the bit flips; budget 200000 + 3000 bytes per input byte",
                "the fixpoint oracle is not applied to decoded values whose greedy tail ends unaligned (C02's documented "
                "exception)"],
            "real_stub": dict(REAL_STUB_PY, stub=REAL_STUB_PY["stub"] + [
                "the link between writer and reader (pure function applying faults to the stored bytes)",
                "clock (line-event counter), memory meter (tracemalloc)"])}


RULE_ORDER = ("each run draws an acyclic definition set (constants over constants and enumerators, enums, typedefs, "
              "structs, unions referring to each other) and renders it as isar XML in 3-8 permutations of its elements "
              "(reverse dependency order, one definition moved to the end, swaps, random); distinct = distinct "
              "(definition-graph shape digest, permutation digest) pairs; non-trivial = at least 3 definitions")


def _C15():
    from props import order
    return {"arms": [Arm(order, "order", 9000, 250000, label="S-ORDER")], "level": "exploration", "rule": RULE_ORDER,
            "assumptions": ASSUME_REF + [
                "the dependency relation is computed from the schema AST by the harness (props/order.py), not from "
                "prophyc's dependencies()", "isar renderings avoid greedy arrays and bytes (not expressible without a patch)",
                "step clock budget 400000 + 4000 line events per input character"],
            "real_stub": REAL_STUB_PY}


def _C04():
    from props import order
    return {"arms": [Arm(order, "order", 6000, 150000, label="S-ORDER"), _hist("C04", 12000, 250000),
                     _cpp("C04", 48, 800)],
            "level": "exploration",
            "rule": RULE_ORDER + "; second arm (S-HIST worlds): every struct/union of every prophy-language world is "
                    "compared (prophyc model node and generated Python class vs reference layout) and every encoding of a "
                    "fixed type must have exactly the static size",
            "assumptions": ASSUME_REF + ["the C++ encoded_byte_size constant is compared in the C++ peer arm (C03/C05 "
                                         "worlds); raw-codec sizeof/_Padder values are not observed (C08, not applicable)"],
            "real_stub": REAL_STUB_PY}


RULE_FS = ("each run draws a schema, assigns its declarations to 2-5 files (never below the file of anything a "
           "declaration needs), places the files in a simulated directory tree (source dir, sub-directories, one or two "
           "-I directories), writes #include lines in tape-chosen spellings (bare name found by the search rule, relative "
           "path, a second spelling through dir/../dir), optionally plants same-basename decoys later in the search "
           "order, and runs one prophyc invocation from a tape-chosen working directory with relative or absolute "
           "arguments in a tape-chosen input order; the concatenation compiled as one file is the control; a quarter "
           "of the runs inject a missing include, an include cycle or EIO on an include read; distinct = distinct "
           "(schema shape, partition, directories, -I set, cwd, spellings) arrangements; non-trivial = at least 2 files")


def _C16():
    from props import fsim
    return {"arms": [Arm(fsim, "fs", 2400, 50000, label="S-FS")], "level": "exploration", "rule": RULE_FS,
            "assumptions": ASSUME_REF + [
                "include search rule as stated in docs/schema.rst: directory of the including file first, then -I "
                "directories in command-line order",
                "two different compiled files never share a basename (outputs are named by basename)",
                "isar xi:include (which by design downgrades missing/cyclic includes to warnings) is not part of this arm"],
            "real_stub": REAL_STUB_PY}


RULE_DET = ("each run draws a schema of >= 6 definitions, splits it into a common file and up to 3 independent files "
            "including it, and compiles it with all four generators in 5-9 fresh interpreters (python -m prophyc on a "
            "real scratch directory) that differ in PYTHONHASHSEED (0,1,2,3,4242 and two drawn values), working "
            "directory (3) with relative/absolute arguments and command-line order of the independent inputs, then "
            "in one interpreter: three repeated compiles, every file alone after an unrelated schema defining the same "
            "names, reversed input order; distinct = distinct (schema shape, hash-seed-changed, cwd, order) "
            "configurations whose outputs were compared")


def _C20():
    from props import det
    return {"arms": [Arm(det, "det", 160, 2500, label="S-DET")], "level": "exploration", "rule": RULE_DET,
            "assumptions": ["PYTHONHASHSEED values are explicit integers (never 'random', which could not be replayed)",
                            "the sack (libclang) front-end is not exercised: python bindings for clang are not installed "
                            "in /venv"],
            "real_stub": {"real": ["python -m prophyc in fresh interpreters on a real scratch directory (all of prophyc, "
                                   "all four generators)", "prophyc.main in-process for the stale-state arm"],
                          "stub": ["process environment (hash seed, cwd, argv order) chosen by the tape",
                                   "file system of the in-process arm (in-memory)"]}}


RULE_COMP = ("each run draws a valid schema in prophy or isar syntax and applies 0-3 corruptions (grammar-aware token "
             "edits: operator for operator, declared name for declared name, literal for literal, array form for array "
             "form, definition/field renames; blind token deletes/duplicates/swaps/inserts; structure-level snippets: "
             "self- and mutually recursive definitions, typedef and constant cycles, duplicates, rule breakers, missing "
             "attributes; file-level truncation / empty / noise), optionally an include (present, missing, self), a "
             "patch file (valid and broken rules), an option variation (syntax mismatch, missing -I dir or patch, no "
             "inputs, --version, --quiet, --void_out, unknown option, --sack, same input twice) and one I/O fault (EIO on "
             "the k-th read, ENOSPC on the k-th write or close, output directory vanishing); prophyc.main runs under the "
             "step clock; distinct = distinct (schema shape, syntax, outcome class, corruption kinds); non-trivial = at "
             "least one corruption, option variation, patch or I/O fault")


def _C13():
    from props import comp
    return {"arms": [Arm(comp, "comp", 14000, 250000, label="S-COMP")], "level": "exploration", "rule": RULE_COMP,
            "assumptions": [
                "the designed error channel is prophyc.ProphycError (emit.error) and SystemExit (argparse)",
                "for prophy-language input without I/O fault or patch every other exception escaping prophyc.main is a "
                "violation; for isar / patch / option inputs an escape is a violation iff it is one of the statement's "
                "internal types (ValueError, KeyError, AttributeError, TypeError, IndexError, AssertionError, "
                "RecursionError) and was not raised by an explicit raise statement in prophyc's own source",
                "step clock budget 1500000 + 12000 line events per input character (about 40x a valid compile)",
                "inputs are valid UTF-8 text"],
            "real_stub": REAL_STUB_PY}


RULE_CPP = ("each run draws a schema the C++ full generator accepts, compiles it with the real prophyc, builds the "
            "generated .ppf.cpp + shipped headers + a generic driver with clang++ -O0 -fsanitize=address,undefined, and "
            "drives the peer in lock-step: per composite type and value the intact reference encoding in little, big "
            "and native order (control arm), objects built without decode incl. limited arrays over their limit (build "
            "arm), and the fault enumeration of sim/link.py (every prefix <= 96 B, every bit <= 12 B else 24 drawn, every "
            "control word x boundary values, pairs, trailing bytes, random strings) in both byte orders; distinct = "
            "distinct (schema shape, fault kind, kind of byte range hit, outcome) tuples; non-trivial = more than 10 requests")

REAL_STUB_CPP = {
    "real": ["prophyc (parser, model, cpp_full generator, python generator) in-process", "generated .ppf.hpp/.ppf.cpp",
             "every header under prophy_cpp/include (encoder, decoder, message, optional, array, align, printer)",
             "prophy Python runtime (writer side, cross-check reader)"],
    "stub": ["the link (pure function applying faults to stored bytes)", "driver main() of the peer (request loop, heap "
             "copies of exact size, replaced operator new as allocation meter)", "file system of the compiler run (in-memory)"],
}
ASSUME_CPP = ASSUME_REF + [
    "the peer is a separate process (ASan cannot be loaded into CPython): lock-step, single-threaded, no clock, output a "
    "pure function of its input",
    "x86-64, clang++ 14; native byte order = little",
    "allocation budget of a decode: 65536 + 1024 bytes per input byte in total; a single request above 256 MiB is "
    "refused by the meter",
    "types whose image contains optional<struct holding a std::vector> run only the control arm (known finding C03/"
    "optional-of-struct-holding-vector)"]


def _cpp(prop, q, t):
    from props import linkcpp
    return Arm(linkcpp, "linkcpp", q, t, label="S-LINK/C++")


def _C03():
    return {"arms": [_cpp("C03", 96, 1200)], "level": "exploration", "rule": RULE_CPP, "assumptions": ASSUME_CPP,
            "real_stub": REAL_STUB_CPP}


def _C05():
    return {"arms": [_cpp("C05", 96, 1200)], "level": "exploration", "rule": RULE_CPP, "assumptions": ASSUME_CPP,
            "real_stub": REAL_STUB_CPP}


def _C07():
    return {"arms": [_cpp("C07", 96, 1200)], "level": "fault_enumeration", "rule": RULE_CPP, "assumptions": ASSUME_CPP,
            "real_stub": REAL_STUB_CPP}


RULE_RULES = ("each run draws a valid schema (features the C++ generators accept) and either leaves it valid or appends "
              "ONE definition breaking ONE documented composability rule (36 rule kinds: unlimited/greedy not last, "
              "unlimited or dynamic element type in each array kind / optional / union arm, sizer missing / late / "
              "optional / non-integer (also through a typedef) / enum (also through a typedef), duplicate type / field / enumerator / constant / discriminator / arm, "
              "non-positive array size or limit, enumerator or discriminator negative or above 32 bits, optional bytes); in "
              "two thirds of the rule-breaking runs a LEGAL twin of the breaker (same type and member names, nothing "
              "illegal) goes through the same compiler process just before or just after it and must be accepted "
              "and importable (stale compiler state as an injected fault); "
              "valid schemas are compiled with all three generators, imported, and (every 12th) compiled with g++ "
              "-fsyntax-only against the shipped headers; distinct = distinct (schema shape, rule) pairs")


def _C12():
    from props import rules
    return {"arms": [Arm(rules, "rules", 8000, 120000, label="S-COMP/rules"), _cpp("C12", 16, 400)],
            "level": "exploration", "rule": RULE_RULES + "; second arm: the worlds of the C++ peer simulation (generated "
            "C++ full codec built with clang++ against the shipped headers)",
            "assumptions": ["the rule list is a transcription of the notes in docs/schema.rst and docs/encoding.rst",
                            "rule breakers are written in the prophy language, where the documentation states the rules; "
                            "the isar and sack front-ends do not validate composability at all (they only warn about "
                            "unknown types) and are outside this arm",
                            "three rules cannot be expressed in the grammar at all (array or optional in a union arm, "
                            "optional array) and are counted as valid runs"],
            "real_stub": dict(REAL_STUB_PY, real=REAL_STUB_PY["real"] + ["cpp and cpp_full generators", "g++ -fsyntax-only / "
                              "clang++ build of generated C++ against prophy_cpp/include"])}
