"""Command line of the checks. Exit codes: 0 held, 1 VIOLATION, 2 HARNESS-ERROR."""
import argparse
import faulthandler
import os
import sys

VERIF = os.path.dirname(os.path.dirname(os.path.abspath(__file__)))
sys.path.insert(0, VERIF)
REPO = os.environ.get("VERIF_REPO", "/repo")
sys.path.insert(0, REPO)


def main():
    ap = argparse.ArgumentParser()
    ap.add_argument("prop")
    ap.add_argument("--tier", default=os.environ.get("VERIF_TIER", "quick"), choices=["quick", "thorough"])
    ap.add_argument("--replay")
    ap.add_argument("--runs", type=int)
    ap.add_argument("--workers", type=int, default=int(os.environ.get("VERIF_WORKERS", "0")) or min(16, os.cpu_count() or 1))
    ap.add_argument("--first", type=int, default=0)
    args = ap.parse_args()
    seed = int(os.environ.get("VERIF_SEED", "0") or 0)
    # a hard wall-clock limit: hitting it is the machinery's failure, never a verdict
    # (signal.alarm, not faulthandler's watchdog thread: a watchdog thread in the parent deadlocks forked workers
    # that arm their own)
    import signal

    def _limit(signum, frame):
        faulthandler.dump_traceback()
        print("HARNESS-ERROR: hard wall-clock limit reached")
        sys.stdout.flush()
        os._exit(2)
    signal.signal(signal.SIGALRM, _limit)
    signal.alarm(int(os.environ.get("VERIF_HARD_LIMIT", "7000")))
    from props import registry
    if args.prop.startswith("selftest"):
        from selftest import run as st
        return st.main(args.prop, args, seed)
    spec = registry.get(args.prop)
    if spec is None:
        print("HARNESS-ERROR: no check for %s" % args.prop)
        return 2
    from sim import runner
    if args.replay:
        return runner.replay(spec["arms"], args.prop, args.replay, spec.get("armed") or {args.prop})
    return runner.run_check(args.prop, spec["arms"], spec["level"], args.tier, seed, args.workers, spec["rule"],
                            spec["assumptions"], spec["real_stub"], armed=spec.get("armed"),
                            runs_override=args.runs, extra_coverage=spec.get("extra_coverage"),
                            expected_probes=spec.get("expected_probes", ()))


if __name__ == "__main__":
    try:
        code = main()
    except SystemExit:
        raise
    except BaseException:
        import traceback
        traceback.print_exc()
        print("HARNESS-ERROR: the check itself failed")
        code = 2
    sys.stdout.flush()
    sys.exit(code)
