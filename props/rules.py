"""C12: prophyc and the back-ends agree on legality.

valid arm:         a generated valid schema must compile with --python_out --cpp_out --cpp_full_out; the Python module
                   must import; (sampled) the C++ full and raw sources must compile against the shipped headers.
rule-breaking arm: the same schema plus ONE definition that breaks ONE documented composability rule must be
                   rejected through the diagnostic channel.
"""
import hashlib
import os
import shutil
import subprocess
import tempfile

from refmodel import types as rt
from gen import schema as gs, render
from sim import world as simworld, fs as simfs
from .pymsg import Violation, _msgkey

REPO = os.environ.get("VERIF_REPO", "/repo")
INCLUDE = os.path.join(REPO, "prophy_cpp", "include")

RULES = [
    "valid", "valid",
    "unlimited-not-last", "greedy-not-last", "unlimited-in-fixed-array", "unlimited-in-limited-array",
    "unlimited-in-dynamic-array", "unlimited-in-greedy-array", "dynamic-in-fixed-array", "dynamic-in-limited-array",
    "dynamic-in-optional", "dynamic-in-union-arm", "unlimited-in-optional", "unlimited-in-union-arm",
    "sizer-missing", "sizer-after-array", "sizer-optional", "sizer-non-integer", "sizer-is-enum",
    "duplicate-type-name", "duplicate-field-name", "duplicate-enumerator", "duplicate-constant", "duplicate-discriminator",
    "duplicate-arm-name", "array-size-zero", "array-size-negative", "limit-zero", "enumerator-above-32-bits",
    "enumerator-negative", "discriminator-above-32-bits", "discriminator-negative", "array-in-union-arm",
    "optional-in-union-arm", "optional-array", "optional-bytes", "sizer-non-integer-typedef", "sizer-typedef-of-enum",
    "duplicate-type-name-across-includes", "duplicate-constant-across-includes", "duplicate-enumerator-across-includes",
    "valid-enum-alias", "valid-definition-free",
]

# rules whose breaker lives in two included files (each fine alone): {rule: (text of a.prophy, text of b.prophy)}
ACROSS = {
    "duplicate-type-name-across-includes": ("struct XD { u8 a; };\n", "struct XD { u16 a; };\n"),
    "duplicate-constant-across-includes": ("const XDK = 1;\n", "const XDK = 2;\n"),
    "duplicate-enumerator-across-includes": ("enum XDE { XD_A = 1 };\n", "enum XDF { XD_A = 2 };\n"),
}
# valid texts that only some back-end trips over
VALID_EXTRA = {
    "valid-enum-alias": "enum XA { XA_A = 1, XA_B = 1, XA_C = 2 };\nstruct XAS { XA e; XA es[2]; };\n",
}


def make_plan(tape, prop):
    schema = gs.gen_schema(tape, cpp=True)
    plan = {"sim": "rules", "prop": prop, "schema": schema}
    plan["rule"] = RULES[tape.draw(len(RULES))]
    plan["pick"] = tape.draw(1 << 10)
    plan["compile_cpp"] = tape.chance(1, 12)
    # stale compiler state as an injected fault: a LEGAL twin of the rule breaker (same names, legal meaning) goes through
    # the same compiler process just before (1) or just after (2) it
    plan["twin"] = tape.draw(3)
    return plan


TWINS = {
    "greedy-not-last": "struct XB { u8 after; u8 g<...>; };",
    "sizer-missing": "struct XB { u8 nope; u8 x<@nope>; };",
    "sizer-after-array": "struct XB { u8 n; u8 x<@n>; };",
    "sizer-optional": "struct XB { u8 n; u8 x<@n>; };",
    "sizer-non-integer": "struct XB { u32 n; u8 x<@n>; };",
    "sizer-non-integer-typedef": "typedef u16 XT;\nstruct XB { XT n; u8 x<@n>; };",
    "sizer-typedef-of-enum": "typedef i32 XE;\ntypedef XE XT;\nstruct XB { XT n; u8 x<@n>; };",
    "sizer-is-enum": "typedef u8 XE;\nstruct XB { XE n; u8 x<@n>; };",
    "duplicate-type-name": "",
    "duplicate-field-name": "struct XB { u8 a; u16 b; };",
    "duplicate-enumerator": "enum XB { XB_A = 1, XB_B = 2 };",
    "duplicate-constant": "const XK = 1;",
    "duplicate-discriminator": "union XB { 1: u8 a; 2: u16 b; };",
    "duplicate-arm-name": "union XB { 1: u8 a; 2: u16 b; };",
    "array-size-zero": "struct XB { u8 a[1]; };",
    "array-size-negative": "struct XB { u8 a[2 - 1]; };",
    "limit-zero": "struct XB { u8 a<1>; };",
    "enumerator-above-32-bits": "enum XB { XB_A = 4294967295 };",
    "enumerator-negative": "enum XB { XB_A = 1 };",
    "discriminator-above-32-bits": "union XB { 4294967295: u8 a; };",
    "discriminator-negative": "union XB { 1: u8 a; };",
    "optional-bytes": "struct XB { u8* b; };",
}


def _fixed_twin(text):
    """the helper definitions with every variable-length array made a fixed one: same names, FIXED stiffness"""
    import re
    return re.sub(r"<(\.\.\.|@\w+)?>", "[2]", text)


def breaker(rule, schema, pick, twin=False, helpers_only=False):
    """one definition (plus helper definitions it needs) breaking exactly the named rule; twin=True: the legal twin
    of that text (same type and member names, but nothing in it breaks a rule), or None when there is none"""
    R = rt.Resolved(schema)
    dyn = [n for n in R.order if R.types[n].cat == "struct" and R.types[n].stiff == rt.DYNAMIC]
    unl = [n for n in R.order if R.types[n].cat == "struct" and R.types[n].stiff == rt.UNLIMITED]
    # candidates of every flavour: the schema's own dynamic / unlimited structs, and helper definitions whose stiffness
    # comes about directly, through nesting, through a typedef, or through a dynamic array next to an unlimited tail
    helpers = {
        "XDyn": "struct XDyn { u8 d<>; };\n",
        "XDynNest": "struct XDyn { u8 d<>; };\nstruct XDynNest { XDyn n; u8 t; };\n",
        "XDynT": "struct XDyn { u8 d<>; };\ntypedef XDyn XDynT;\n",
        "XDynExt": "struct XDynExt { u8 n; u16 d<@n>; };\n",
        "XUnl": "struct XUnl { u8 g<...>; };\n",
        "XUnlNest": "struct XUnl { u8 g<...>; };\nstruct XUnlNest { u32 a; XUnl t; };\n",
        "XUnlT": "struct XUnl { u8 g<...>; };\ntypedef XUnl XUnlT;\n",
        "XUnlDyn": "struct XUnl { u8 g<...>; };\nstruct XUnlDyn { u16 ids<>; XUnl t; };\n",
        "XUnlExt": "struct XUnl { u8 g<...>; };\nstruct XUnlExt { u8 n; u16 ids<@n>; XUnl t; };\n",
    }
    if twin or helpers_only:
        dyn, unl = [], []          # a twin re-defines the helper types, so it needs helper types
    dyn = dyn + ["XDyn", "XDynNest", "XDynT", "XDynExt"]
    unl = unl + ["XUnl", "XUnlNest", "XUnlT", "XUnlDyn", "XUnlExt"]
    D, U = dyn[pick % len(dyn)], unl[(pick // 7) % len(unl)]
    pre = ""
    for name in (D, U):
        for line in helpers.get(name, "").splitlines(True):
            if line not in pre:
                pre += line
    existing = [d["name"] for d in schema["defs"]]
    body = {
        "unlimited-not-last": "struct XB { %s u; u8 after; };" % U,
        "greedy-not-last": "struct XB { u8 g<...>; u8 after; };",
        "unlimited-in-fixed-array": "struct XB { %s u[2]; };" % U,
        "unlimited-in-limited-array": "struct XB { %s u<2>; };" % U,
        "unlimited-in-dynamic-array": "struct XB { %s u<>; };" % U,
        "unlimited-in-greedy-array": "struct XB { %s u<...>; };" % U,
        "dynamic-in-fixed-array": "struct XB { %s d[2]; };" % D,
        "dynamic-in-limited-array": "struct XB { %s d<2>; };" % D,
        "dynamic-in-optional": "struct XB { %s* d; };" % D,
        "dynamic-in-union-arm": "union XB { 1: %s d; };" % D,
        "unlimited-in-optional": "struct XB { %s* u; };" % U,
        "unlimited-in-union-arm": "union XB { 1: %s u; };" % U,
        "sizer-missing": "struct XB { u8 x<@nope>; };",
        "sizer-after-array": "struct XB { u8 x<@n>; u8 n; };",
        "sizer-optional": "struct XB { u8* n; u8 x<@n>; };",
        "sizer-non-integer": "struct XB { float n; u8 x<@n>; };",
        "sizer-is-enum": "enum XE { XE_A = 1 }; struct XB { XE n; u8 x<@n>; };",
        "sizer-non-integer-typedef": "typedef %s XT;\nstruct XB { XT n; u8 x<@n>; };" % ["float", "double"][pick % 2],
        "sizer-typedef-of-enum": "enum XE { XE_A = 1 };\ntypedef XE XT;\nstruct XB { XT n; u8 x<@n>; };",
        "duplicate-type-name": "struct %s { u8 a; };" % existing[pick % len(existing)],
        "duplicate-field-name": "struct XB { u8 a; u16 a; };",
        "duplicate-enumerator": "enum XB { XB_A = 1, XB_A = 2 };",
        "duplicate-constant": "const XK = 1;\nconst XK = 2;",
        "duplicate-discriminator": "union XB { 1: u8 a; 1: u16 b; };",
        "duplicate-arm-name": "union XB { 1: u8 a; 2: u16 a; };",
        "array-size-zero": "struct XB { u8 a[0]; };",
        "array-size-negative": "struct XB { u8 a[1 - 2]; };",
        "limit-zero": "struct XB { u8 a<0>; };",
        "enumerator-above-32-bits": "enum XB { XB_A = 4294967296 };",
        "enumerator-negative": "enum XB { XB_A = -1 };",
        "discriminator-above-32-bits": "union XB { 4294967296: u8 a; };",
        "discriminator-negative": "union XB { -1: u8 a; };",
        "array-in-union-arm": None,        # not expressible: the grammar has no array syntax in union arms
        "optional-in-union-arm": None,     # not expressible in the grammar
        "optional-array": None,            # not expressible in the grammar
        "optional-bytes": "struct XB { bytes* b; };",
    }[rule]
    if body is None:
        return None
    if twin:
        if rule in TWINS:
            return TWINS[rule] + "\n"
        return _fixed_twin(pre) + body + "\n"
    return pre + body + "\n"


class RulesRun(object):
    def __init__(self, plan, armed):
        self.plan = plan
        self.armed = armed
        self.stats = {}
        self.faults = {}
        self.states = set()
        self.log = hashlib.sha1()
        self.trace = []

    def count(self, k, n=1):
        self.stats[k] = self.stats.get(k, 0) + n

    def v(self, tag, ck, msg):
        if "C12" in self.armed:
            return Violation("C12", tag, ck, 0, msg)
        return None

    def run_valid_variant(self, rule, text):
        """a valid text that only one back-end may trip over: every output must be usable (C++ is always compiled)"""
        if rule == "valid-definition-free":
            text = ["", "// nothing here yet\n", "/* placeholder\n   header */\n", "\n\n"][self.plan["pick"] % 4]
        else:
            text = text + "\n" + VALID_EXTRA[rule]
        self.text = text
        self.faults[rule] = self.faults.get(rule, 0) + 1
        self.states.add(rule)
        self.trace.append("rule: %s" % rule)
        self.log.update((rule + hashlib.sha1(text.encode()).hexdigest()).encode())
        fs = simfs.FakeFS("/w")
        fs.mkdir("/w/out")
        fs.put("/w/s.prophy", text)
        nodes, exc, so, se = simworld.run_prophyc(fs, ["--python_out", "/w/out", "--cpp_out", "/w/out", "--cpp_full_out",
                                                       "/w/out", "/w/s.prophy"])
        if exc is not None:
            return self.v("valid-rejected", "C12/valid-schema-rejected/%s/%s" % (type(exc).__name__, _msgkey(exc)),
                          "a valid schema (%s) was rejected: %s: %s\n%s" % (rule, type(exc).__name__, str(exc)[:300], text[-400:]))
        try:
            simworld.import_generated({"s": fs.get("/w/out/s.py")})
        except Exception as e:
            return self.v("import", "C12/accepted-but-python-import-fails/%s/%s" % (type(e).__name__, _msgkey(e)),
                          "valid schema (%s) accepted but the generated Python module does not import: %s: %s\n%s" %
                          (rule, type(e).__name__, str(e)[:300], text[-400:]))
        self.count("valid_imported")
        return self.compile_cpp(fs, text)

    def compile_cpp(self, fs, text):
        d = tempfile.mkdtemp(prefix="verif-c12-", dir="/dev/shm" if os.path.isdir("/dev/shm") else None)
        try:
            for ext in (".ppf.hpp", ".ppf.cpp", ".pp.hpp", ".pp.cpp"):
                with open(os.path.join(d, "s" + ext), "w") as f:
                    f.write(fs.get("/w/out/s" + ext))
            for src, what in (("s.ppf.cpp", "cpp-full"), ("s.pp.cpp", "cpp-raw")):
                p = subprocess.run(["g++", "-std=c++11", "-fsyntax-only", "-w", "-I", INCLUDE, "-I", d, src], cwd=d,
                                   stdout=subprocess.PIPE, stderr=subprocess.PIPE, timeout=300)
                self.count("compiled_" + what)
                if p.returncode != 0:
                    err = p.stderr.decode("utf-8", "replace")
                    import re
                    m = re.search(r"error: ([^\n]{0,100})", err)
                    return self.v("cpp-compile", "C12/%s-does-not-compile/%s" % (what, _msgkey(m.group(1) if m else "x")),
                                  "generated %s source does not compile:\n%s\n%s" % (what, err[:1200], text[-600:]))
        finally:
            shutil.rmtree(d, ignore_errors=True)
        return None

    def compile_twin(self, fs, rule, text, when):
        """the legal twin of the rule breaker through the same compiler process: must be accepted and importable"""
        fs.mkdir("/w/twin")
        fs.put("/w/twin/s.prophy", text)
        nodes, exc, so, se = simworld.run_prophyc(fs, ["--python_out", "/w/twin", "--cpp_out", "/w/twin",
                                                       "--cpp_full_out", "/w/twin", "/w/twin/s.prophy"])
        self.faults["legal-twin-" + when] = self.faults.get("legal-twin-" + when, 0) + 1
        self.trace.append("legal twin compiled %s the rule breaker" % when)
        if exc is not None:
            return self.v("valid-rejected", "C12/valid-schema-rejected/twin-%s/%s/%s" % (when, type(exc).__name__, _msgkey(exc)),
                          "the legal twin of rule '%s' (compiled %s the rule breaker in the same process) was rejected: "
                          "%s: %s\n%s" % (rule, when, type(exc).__name__, str(exc)[:300], text[-400:]))
        try:
            simworld.import_generated({"s": fs.get("/w/twin/s.py")})
        except Exception as e:
            return self.v("import", "C12/accepted-but-python-import-fails/twin/%s/%s" % (type(e).__name__, _msgkey(e)),
                          "legal twin of rule '%s' accepted but the generated Python module does not import: %s: %s\n%s" %
                          (rule, type(e).__name__, str(e)[:300], text[-400:]))
        self.count("twin_" + when)
        return None

    def run(self):
        plan = self.plan
        rule = plan["rule"]
        text = render.prophy_text(plan["schema"])
        twin_mode = plan.get("twin", 0)
        across = ACROSS.get(rule)
        if across and plan["pick"] % 2:
            # the same definition text in both included files: still two definitions of one name (C12_h: a guard that
            # compares the nodes for equality instead of identity lets exactly this through)
            across = (across[0], across[0])
        if rule in VALID_EXTRA or rule == "valid-definition-free":
            return self.run_valid_variant(rule, text)
        if across:
            twin_mode = 0
        extra = None if rule == "valid" else "" if across else breaker(rule, plan["schema"], plan["pick"],
                                                                      helpers_only=bool(twin_mode))
        if rule != "valid" and extra is None:
            rule = "valid"
        twin = breaker(rule, plan["schema"], plan["pick"], twin=True) if rule != "valid" and twin_mode else None
        valid_text = text
        if extra:
            text = text + "\n" + extra
        fs = simfs.FakeFS("/w")
        fs.mkdir("/w/out")
        if across:
            fs.put("/w/xa.prophy", across[0])
            fs.put("/w/xb.prophy", across[1])
            text = '#include "xa.prophy"\n#include "xb.prophy"\n' + text
            extra = "xa.prophy: %sxb.prophy: %s" % across
        self.text = text
        fs.put("/w/s.prophy", text)
        if twin is not None and twin_mode == 1:
            v = self.compile_twin(fs, rule, valid_text + "\n" + twin, "before")
            if v:
                return v
        argv = ["--python_out", "/w/out", "--cpp_out", "/w/out", "--cpp_full_out", "/w/out", "/w/s.prophy"]
        nodes, exc, so, se = simworld.run_prophyc(fs, argv)
        self.trace.append("rule: %s" % rule)
        if twin is not None and twin_mode == 2 and exc is not None and type(exc).__name__ == "ProphycError":
            v = self.compile_twin(fs, rule, valid_text + "\n" + twin, "after")
            if v:
                return v
        self.log.update((rule + hashlib.sha1(text.encode()).hexdigest()).encode())
        self.faults[rule] = self.faults.get(rule, 0) + 1
        self.states.add(rule)
        if rule != "valid":
            if exc is None:
                # accepted: does any back-end actually choke on it? (the disagreement the property speaks of)
                py = "imports"
                try:
                    simworld.import_generated({"s": fs.get("/w/out/s.py")})
                except Exception as e:
                    py = "import fails with %s: %s" % (type(e).__name__, str(e)[:120])
                return self.v("rule-breaker-accepted", "C12/rule-breaker-accepted/%s" % rule,
                              "prophyc accepted a schema that breaks the rule '%s' (generated Python module %s):\n%s" %
                              (rule, py, extra))
            if type(exc).__name__ not in ("ProphycError",):
                return self.v("rule-breaker-channel", "C12/rule-breaker-not-diagnosed/%s/%s" % (rule, type(exc).__name__),
                              "rule '%s' ended in %s: %s\n%s" % (rule, type(exc).__name__, str(exc)[:200], extra))
            self.count("rejected")
            return None
        if exc is not None:
            return self.v("valid-rejected", "C12/valid-schema-rejected/%s/%s" % (type(exc).__name__, _msgkey(exc)),
                          "a valid schema was rejected: %s: %s\n%s" % (type(exc).__name__, str(exc)[:300], text))
        try:
            simworld.import_generated({"s": fs.get("/w/out/s.py")})
        except Exception as e:
            return self.v("import", "C12/accepted-but-python-import-fails/%s/%s" % (type(e).__name__, _msgkey(e)),
                          "valid schema accepted but the generated Python module does not import: %s: %s\n%s" %
                          (type(e).__name__, str(e)[:300], text))
        self.count("valid_imported")
        if plan["compile_cpp"]:
            return self.compile_cpp(fs, text)
        return None


def execute(plan, armed):
    run = RulesRun(plan, armed)
    v = run.run()
    shape = gs.shape_digest(plan["schema"])
    return {"violation": v.as_dict() if v else None, "soft": [], "stats": run.stats, "probes": {}, "faults": run.faults,
            "states": set("%s:%s" % (shape, s) for s in run.states), "digest": run.log.hexdigest(), "trace": run.trace,
            "steps": 1, "nontrivial": True,
            "sample": {"rule": plan["rule"], "schema_tail": getattr(run, "text", "")[-400:]}}


def simplify_plan(plan, same):
    from .pymsg import simplify_plan as schema_simplify
    return schema_simplify(dict(plan, msg_name=""), same, max_exec=120)
