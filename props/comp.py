"""S-COMP (C13, C12): the compiler entry point under corrupted inputs, arbitrary option lists, I/O faults and a
step clock.

C13: prophyc.main terminates within the step budget and either writes all requested outputs or fails through its
designed channel.  C12 (acceptance arm): whatever it accepts, the Python back-end can import; documented rule
breakers are rejected. (The C++ halves of C12 live in props/cppcomp.py.)
"""
import hashlib
import re
import traceback

from gen import schema as gs, render, corrupt
from sim import world as simworld, fs as simfs
from sim.clock import StepClock, SimTimeout
from sim.tape import Tape
from .pymsg import Violation, _msgkey

STEP_A, STEP_B = 1500000, 3000         # line events: A + B * total input characters (worst valid compile seen:
                                       # 417k events for 375 characters, most of it ply table construction)

CPU_BUDGET_S = 40                      # process CPU seconds for one compile (a valid one needs < 0.5 s under the tracer)

INTERNAL = (ValueError, KeyError, AttributeError, TypeError, IndexError, AssertionError, RecursionError)
GEN_EXT = {"--python_out": [".py"], "--cpp_out": [".pp.hpp", ".pp.cpp"], "--cpp_full_out": [".ppf.hpp", ".ppf.cpp"],
           "--prophy_out": [".prophy"]}


def make_plan(tape, prop):
    syntax = "isar" if tape.chance(1, 3) else "prophy"
    feats = gs.draw_features(tape)
    if syntax == "isar":
        for f in ("arr_dynamic", "arr_greedy", "bytes"):
            feats[f] = False
        feats["_forbid"] = ("arr_dynamic", "arr_greedy", "bytes")
    schema = gs.gen_schema(tape, cpp=True, feats=feats)
    plan = {"sim": "comp", "prop": prop, "syntax": syntax, "schema": schema}
    text = render.prophy_text(schema) if syntax == "prophy" else render.isar_text(schema["defs"])
    names = [d["name"] for d in schema["defs"]]
    for d in schema["defs"]:
        if d["k"] == "enum":
            names += [m[0] for m in d["members"]]
    cs = []
    ncorr = tape.weighted([3, 8, 3, 1])      # 0..3 corruptions
    for _ in range(ncorr):
        if syntax == "prophy":
            c = corrupt.draw_text_corruption(tape, text, names)
            text = corrupt.apply_text(text, c)
        else:
            c = corrupt.draw_xml_corruption(tape, text, names)
            text = corrupt.apply_xml(text, c)
        cs.append(c)
    plan["corruptions"] = cs
    # include file
    plan["include"] = tape.weighted([8, 1, 1, 1]) if syntax == "prophy" else 0    # none / present / missing / self
    # patch
    plan["patch"] = None
    if tape.chance(1, 5):
        plan["patch"] = corrupt.draw_patch(tape, schema)
    # options
    outs = [o for o in sorted(GEN_EXT) if tape.chance(1, 2)]
    if not outs and not tape.chance(1, 6):
        outs = ["--python_out"]
    plan["outs"] = outs
    plan["opt"] = tape.weighted([20, 1, 1, 1, 1, 1, 1, 1, 1, 1, 1, 1, 1, 1, 1])
    plan["io"] = tape.weighted([14, 1, 1, 1, 1, 1])   # none / read EIO / write ENOSPC / torn close / outdir vanishes /
                                                      # an input file (main, include or patch) is not UTF-8
    plan["io_at"] = tape.draw(8)
    return plan


def build_text(plan):
    schema = plan["schema"]
    if plan["syntax"] == "prophy":
        text = render.prophy_text(schema)
        for c in plan["corruptions"]:
            text = corrupt.apply_text(text, c)
    else:
        text = render.isar_text(schema["defs"])
        for c in plan["corruptions"]:
            text = corrupt.apply_xml(text, c)
    return text


def explicit_raise_in_prophyc(exc):
    """innermost traceback frame lies in prophyc's own source and its line is a raise statement"""
    tb = traceback.extract_tb(exc.__traceback__)
    if not tb:
        return False, "?"
    last = tb[-1]
    # the innermost frame of the system under test (the harness's own trace function may be on top of the stack when
    # the recursion limit is hit)
    for fr in reversed(tb):
        if "/verif/" not in fr.filename:
            last = fr
            break
    where = "%s:%s" % (last.filename.rsplit("/", 1)[-1], last.name)
    in_prophyc = "/prophyc/" in last.filename
    line = (last.line or "").strip()
    # "raise X(...)" counts only when X is the class that actually escaped: an AttributeError raised while the
    # argument of "raise ParseError(... % p.value)" is evaluated is not a deliberate raise
    deliberate = line.startswith("raise") and (("raise %s(" % type(exc).__name__) in line or line == "raise")
    return in_prophyc and deliberate, where


class CompRun(object):
    def __init__(self, plan, armed):
        self.plan = plan
        self.armed = armed
        self.stats = {}
        self.faults = {}
        self.probes = {}
        self.states = set()
        self.log = hashlib.sha1()
        self.trace = []
        self.steps = 0

    def count(self, k, n=1):
        self.stats[k] = self.stats.get(k, 0) + n

    def v(self, prop, tag, ck, msg):
        if prop in self.armed:
            return Violation(prop, tag, ck, 0, msg)
        self.count("unarmed:" + prop)
        return None

    def run(self):
        plan = self.plan
        syntax = plan["syntax"]
        text = build_text(plan)
        self.text = text
        fs = simfs.FakeFS("/w")
        for d in ("/w/out", "/w/inc"):
            fs.mkdir(d)
        ext = ".prophy" if syntax == "prophy" else ".xml"
        main = "/w/s" + ext
        inc = plan.get("include", 0)
        if inc == 1:
            fs.put("/w/inc/base.prophy", "const BASE_K = 3;\nstruct BaseS { u8 b[BASE_K]; };\n")
            text = '#include "inc/base.prophy"\n' + text
        elif inc == 2:
            text = '#include "inc/missing.prophy"\n' + text
        elif inc == 3:
            text = '#include "s.prophy"\n' + text
        ginc = corrupt.graph_include_text(plan["corruptions"]) if syntax == "isar" else None
        if ginc is not None:
            fs.put("/w/inc/graph.xml", ginc)
            self.faults["isar-include-of-drawn-graph"] = self.faults.get("isar-include-of-drawn-graph", 0) + 1
        fs.put(main, text)
        argv = []
        if syntax == "isar":
            argv.append("--isar")
        for o in plan["outs"]:
            argv += [o, "/w/out"]
        inputs = [main]
        opt = plan["opt"]
        all_prophy_text = syntax == "prophy"
        if opt == 1:
            argv = [a for a in argv if a != "--isar"] if syntax == "isar" else ["--isar"] + argv   # syntax mismatch
            all_prophy_text = False
        elif opt == 2:
            argv += ["-I", "/w/nodir"]
        elif opt == 3:
            argv += ["--patch", "/w/nopatch"]
        elif opt == 4:
            inputs = []
        elif opt == 5:
            argv += ["--version"]
        elif opt == 6:
            argv += ["--quiet"]
        elif opt == 7:
            argv += ["--void_out"]
        elif opt == 8:
            argv += ["--frobnicate"]
        elif opt == 9:
            argv += ["--sack"] if "--isar" not in argv else ["--sack"]
            all_prophy_text = False
        elif opt == 10:
            inputs = [main, main]
        elif opt == 11:
            argv += ["-S", main]                 # isar supplement outside sack mode
            all_prophy_text = False
        elif opt == 12:
            inputs = ["/w/out"]                  # a directory where a file is expected
        elif opt == 13:
            argv += ["--python_out", "/w/nodir"]
        elif opt == 14:
            argv = ["--isar", "--sack"] + argv   # mutually exclusive front-ends
            all_prophy_text = False
        if plan["patch"] is not None:
            fs.put("/w/p.patch", plan["patch"])
            argv += ["--patch", "/w/p.patch"]
            all_prophy_text = False if syntax != "prophy" else all_prophy_text
        argv += inputs
        io = plan["io"]
        if io == 1:
            fs.faults[("read", plan["io_at"] % 3)] = 5
        elif io == 2:
            fs.faults[("write", plan["io_at"] % 4)] = 28
        elif io == 3:
            fs.faults[("close", plan["io_at"] % 4)] = 28
        elif io == 5:
            fs.faults[("undecodable", plan["io_at"] % 3)] = 1
        elif io == 4:
            fs.vanish_on_write = "/w/out"
        self.trace.append("argv: %s" % " ".join(argv))
        self.trace.append("corruptions: %r" % (plan["corruptions"],))
        if plan["patch"] is not None:
            self.trace.append("patch: %r" % plan["patch"])
        nchar = sum(len(v) for v in fs.files.values())
        clock = StepClock(STEP_A + STEP_B * nchar, cpu_budget_s=CPU_BUDGET_S)
        try:
            with clock:
                nodes, exc, so, se = simworld.run_prophyc(fs, argv)
        except SimTimeout:
            self.steps += clock.steps
            self.count("hangs")
            if clock.cpu_fired:
                return self.v("C13", "hang", "C13/hang-in-native-code/%s/%s" % (syntax, self.hang_key()),
                              "prophyc.main used more than %d s of CPU on %d input characters after only %d line events "
                              "(time is spent inside native code, e.g. a regular expression): argv %s\n%s" %
                              (CPU_BUDGET_S, nchar, clock.steps, argv, text[:600]))
            return self.v("C13", "hang", "C13/hang/%s/%s" % (syntax, self.hang_key()),
                          "prophyc.main exceeded %d line events on %d input characters: argv %s\n%s" %
                          (clock.budget, nchar, argv, text[:600]))
        self.steps += clock.steps
        fired = [f[0] for f in fs.fired]
        for f in fired:
            self.faults["io-" + f] = self.faults.get("io-" + f, 0) + 1
        if io == 4 and fs.writes:
            self.faults["io-outdir-vanished"] = self.faults.get("io-outdir-vanished", 0) + 1
        for c in plan["corruptions"]:
            key = c["k"] + ("-" + c["cls"] if c["k"] == "aware" else "")
            self.faults["corrupt-" + key] = self.faults.get("corrupt-" + key, 0) + 1
        outcome = "ok" if exc is None else type(exc).__name__
        self.count("outcome:" + ("accepted" if exc is None else "ProphycError" if outcome == "ProphycError" else
                                 "SystemExit" if outcome == "SystemExit" else "escape"))
        self.log.update(("%s|%s|%s" % (argv, outcome, hashlib.sha1(text.encode()).hexdigest())).encode())
        self.states.add("%s|%s|%s" % (syntax, outcome, ",".join(sorted(set(c["k"] + c.get("cls", "") for c in plan["corruptions"])))))
        io_fired = bool(fired) or (io == 4 and bool(fs.writes))
        if exc is None and "undecodable" in fired:
            return self.v("C13", "success-with-unreadable-input", "C13/success-although-an-input-is-not-utf-8",
                          "prophyc.main returned normally although %s could not be decoded" % (fs.fired,))
        if exc is None:
            return self.check_success(fs, argv, inputs, io_fired, nodes)
        if outcome == "SystemExit":
            return None
        if outcome == "ProphycError":
            return self.check_diagnostic(exc, main, all_prophy_text and not io_fired)
        # an exception other than the designed channel escaped prophyc.main
        explicit, where = explicit_raise_in_prophyc(exc)
        self.count("escape:%s" % outcome)
        if io_fired and isinstance(exc, OSError):
            return None
        if all_prophy_text and not io_fired and plan["patch"] is None:
            return self.v("C13", "escape-prophy-text", "C13/escape/prophy/%s/%s" % (outcome, where),
                          "prophy-language input made prophyc.main raise %s (%s) instead of a file:line:col diagnostic: %s\n"
                          "argv %s\n%s" % (outcome, where, str(exc)[:300], argv, text[:700]))
        # "either succeeds or fails with a message from its designed error channel": an exception that prophyc did not
        # raise on purpose is not a message of any designed channel, whatever its class (ZeroDivisionError, OverflowError,
        # MemoryError ... next to the classes the statement lists); OSError from the environment is not prophyc's
        if not explicit and not isinstance(exc, OSError):
            src = "patch" if plan["patch"] is not None and "patch.py" in where else syntax
            return self.v("C13", "escape-internal", "C13/escape/%s/%s/%s" % (src, outcome, where),
                          "prophyc.main let an internal %s escape (%s): %s\nargv %s\n%s" %
                          (outcome, where, str(exc)[:300], argv, text[:700]))
        self.count("unlisted_escape:%s" % outcome)
        return None

    def hang_key(self):
        ks = sorted(set(c.get("text", c["k"])[:40] for c in self.plan["corruptions"]))
        return _msgkey(" ".join(ks)) or "x"

    def check_success(self, fs, argv, inputs, io_fired, nodes):
        plan = self.plan
        if "--version" in argv:
            return None
        if any(f[0] in ("write", "close") for f in fs.fired) or (plan["io"] == 4 and fs.writes):
            return self.v("C13", "success-after-failed-write", "C13/success-after-failed-write",
                          "prophyc.main returned normally although writing an output failed (%s)" % (fs.fired,))
        for o in plan["outs"]:
            for e in GEN_EXT[o]:
                p = "/w/out/s" + e
                if inputs and fs.get(p) is None:
                    return self.v("C13", "output-missing", "C13/success-without-output/%s" % e,
                                  "prophyc.main succeeded but %s was not written" % p)
        self.count("accepted")
        # C12: whatever prophyc accepts, the Python back-end can realise
        if "--python_out" in plan["outs"] and inputs:
            sources = {"s": fs.get("/w/out/s.py")}
            if fs.get("/w/inc/base.prophy") and plan.get("include") == 1:
                # the include was not compiled itself: compile it for the import
                f2 = simfs.FakeFS("/w")
                f2.mkdir("/w/out")
                f2.put("/w/base.prophy", fs.get("/w/inc/base.prophy"))
                simworld.run_prophyc(f2, ["--python_out", "/w/out", "/w/base.prophy"])
                sources["base"] = f2.get("/w/out/base.py")
            if fs.get("/w/inc/graph.xml") is not None:
                f2 = simfs.FakeFS("/w")
                f2.mkdir("/w/out")
                f2.put("/w/graph.xml", fs.get("/w/inc/graph.xml"))
                _, e2, _, _ = simworld.run_prophyc(f2, ["--isar", "--python_out", "/w/out", "/w/graph.xml"])
                if e2 is not None or f2.get("/w/out/graph.py") is None:
                    return None    # the included part does not compile alone: nothing to import against
                sources["graph"] = f2.get("/w/out/graph.py")
            try:
                simworld.import_generated(sources, want=["s"])
                self.count("imported")
            except Exception as e:
                return self.v("C12", "import", "C12/accepted-but-python-import-fails/%s/%s" % (type(e).__name__, _msgkey(e)),
                              "prophyc accepted the input but the generated Python module does not import: %s: %s\n%s" %
                              (type(e).__name__, str(e)[:300], self.text[:900]))
        return None

    def check_diagnostic(self, exc, main, strict):
        msg = str(exc)
        self.count("diagnostics")
        if strict and main in msg:
            for line in msg.split("\n"):
                line = line[len("prophyc: error: "):] if line.startswith("prophyc: error: ") else line
                if line.startswith("/w/") and not re.match(r"^/w/[^:]+:\d+:\d+: error: .+", line):
                    return self.v("C13", "diagnostic-format", "C13/diagnostic-without-line-column",
                                  "diagnostic for schema text lacks file:line:column: %r" % line[:200])
        return None


def execute(plan, armed):
    run = CompRun(plan, armed)
    v = run.run()
    nontriv = bool(plan["corruptions"]) or plan["opt"] or plan["io"] or plan["patch"] is not None
    return {"violation": v.as_dict() if v else None, "soft": [], "stats": run.stats, "probes": run.probes,
            "faults": run.faults, "states": set("%s:%s" % (gs.shape_digest(plan["schema"]), s) for s in run.states),
            "digest": run.log.hexdigest(), "trace": run.trace, "steps": run.steps, "nontrivial": bool(nontriv),
            "sample": {"argv_and_corruptions": run.trace[:3], "input": getattr(run, "text", "")[:600]}}


LIST_FIELDS = ["corruptions"]


def simplify_plan(plan, same):
    import copy
    best = plan
    for key, val in (("io", 0), ("opt", 0), ("patch", None), ("include", 0)):
        if best.get(key):
            cand = copy.deepcopy(best)
            cand[key] = val
            try:
                if same(cand):
                    best = cand
            except Exception:
                pass
    from .pymsg import simplify_plan as schema_simplify
    p2 = dict(best, msg_name="")
    return schema_simplify(p2, same, max_exec=120)
