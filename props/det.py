"""S-DET (C20): the ambient nondeterminism of the process is the fault dimension.

Fresh interpreters (python -m prophyc on a real scratch directory) under different PYTHONHASHSEED values, working
directories and command-line orders of independent inputs; plus, inside one interpreter, repeated and interleaved
compiles (stale module / parser / cache state). Oracle: byte-identical content of every generated file.
"""
import hashlib
import itertools
import os
import shutil
import subprocess
import sys
import tempfile

from gen import schema as gs, render
from sim import world as simworld, fs as simfs
from .pymsg import Violation, _msgkey, _refs

REPO = os.environ.get("VERIF_REPO", "/repo")
OUT_OPTS = ["--python_out", "--cpp_out", "--cpp_full_out", "--prophy_out"]
EXTS = [".py", ".pp.hpp", ".pp.cpp", ".ppf.hpp", ".ppf.cpp", ".prophy"]


def make_plan(tape, prop):
    feats = gs.draw_features(tape)
    for f in ("consts", "enums", "typedefs", "unions", "nested"):
        feats[f] = True if tape.chance(2, 3) else feats[f]
    feats["shared_sizer"] = False
    variant = tape.draw(5)
    if variant == 4:        # isar inputs: only what isar XML can say
        for f in ("arr_dynamic", "arr_greedy", "bytes"):
            feats[f] = False
        feats["_forbid"] = ("arr_dynamic", "arr_greedy", "bytes")
    schema = None
    for _ in range(6):
        schema = gs.gen_schema(tape, cpp=True, feats=feats, max_defs=12)
        if len(schema["defs"]) >= 6:
            break
    # enumerators that share a value (legal; which of the names a back-end prints for the value must not depend on the
    # interpreter's hash seed - C20_h)
    for d in schema["defs"]:
        if d["k"] == "enum" and variant != 4 and tape.chance(1, 2):     # (the isar front-end refuses them by design)
            for k in range(1 + tape.draw(2)):
                d["members"].append(["%s_a%d" % (d["name"], k), d["members"][tape.draw(len(d["members"]))][1]])
    plan = {"sim": "det", "prop": prop, "schema": schema}
    plan["ntails"] = 1 + tape.draw(3)
    plan["hashseeds"] = [0, 1, 2, 3, 4242, 1 + tape.draw(1 << 20), 1 + tape.draw(1 << 20)]
    plan["nproc"] = 4 + tape.draw(5)          # how many fresh-interpreter configurations are executed
    plan["pick"] = [tape.draw(1 << 10) for _ in range(12)]
    plan["unrelated"] = tape.draw(1 << 16)
    plan["variant"] = variant           # 4: self-contained isar inputs that define the same constant names with different
                                        #    values and use textually identical size expressions over them
                                        # 1: every independent input sits in its own directory next to its own defs.prophy
                                        # 3: self-contained inputs defining the same struct name, compiled with a patch file
                                        # 2: the common file is found only through the last of two -I directories
    return plan


def split(schema, ntails):
    """common file + independent tail files (structs/unions nobody else refers to, not referring to each other)"""
    defs = schema["defs"]
    tails = []
    for i in range(len(defs) - 1, -1, -1):
        d = defs[i]
        if len(tails) >= ntails or d["k"] not in ("struct", "union"):
            break
        names = {d["name"]}
        if any(names & _refs(o) for o in defs if o is not d):
            break
        tails.append(i)
    tails = sorted(tails)
    common = [d for i, d in enumerate(defs) if i not in tails]
    if not common or not tails:
        return None
    return common, [defs[i] for i in tails]


class DetRun(object):
    def __init__(self, plan, armed):
        self.plan = plan
        self.armed = armed
        self.stats = {}
        self.faults = {}
        self.probes = {}
        self.states = set()
        self.log = hashlib.sha1()
        self.trace = []
        self.incdirs = []
        self.patch = None
        self.isar = False

    def count(self, k, n=1):
        self.stats[k] = self.stats.get(k, 0) + n

    def v(self, tag, ck, msg):
        if "C20" in self.armed:
            return Violation("C20", tag, ck, 0, msg)
        return None

    # ---- files
    def layout(self):
        sp = split(self.plan["schema"], self.plan["ntails"])
        files = {}
        if sp is None:
            files["single.prophy"] = render.prophy_text(self.plan["schema"])
            inputs = ["single.prophy"]
        else:
            common, tails = sp
            if self.plan.get("variant") == 1 and len(tails) >= 2:
                # same include name, different file per including directory: d<k>/tail<k>.prophy includes "defs.prophy"
                inputs = []
                for k, t in enumerate(tails):
                    files["d%d/defs.prophy" % k] = render.prophy_text({"defs": common}) + \
                        "\nconst DIRK = %d;\nconst ONLY_%d = 1;\n" % (k + 1, k)
                    files["d%d/tail%d.prophy" % (k, k)] = render.prophy_text({"defs": [t]}, includes=["defs.prophy"]) + \
                        "\nstruct XDir%d { u8 pad[DIRK]; };\n" % k
                    inputs.append("d%d/tail%d.prophy" % (k, k))
                self.faults["same_include_name_in_two_directories"] = 1
                return files, inputs
            if self.plan.get("variant") == 3 and len(tails) >= 2:
                inputs = []
                for k, t in enumerate(tails):
                    name = "t%d/tail%d.prophy" % (k, k)
                    files[name] = render.prophy_text({"defs": common + [t]}) + \
                        "\nstruct Hdr { u32 id; u16 v%d; };\nstruct Body%d { Hdr h; u8 x; };\n" % (k, k)
                    inputs.append(name)
                files["p.patch"] = "Hdr type id u64\nAbsentOne type x u8\n"
                self.patch = "p.patch"
                self.faults["patch_applied_to_same_name_in_several_inputs"] = 1
                return files, inputs
            if self.plan.get("variant") == 4 and render.isar_expressible(self.plan["schema"]):
                inputs = []
                if len(tails) < 2:
                    tails = [tails[0], tails[0]]
                for k, t in enumerate(tails):
                    name = "t%d/tail%d.xml" % (k, k)
                    extra = [{"k": "const", "name": "DIRK", "expr": str(k + 2)},
                             {"k": "const", "name": "DIRK2", "expr": "DIRK * 2"},
                             {"k": "struct", "name": "XDir", "members": [
                                 {"name": "pad", "type": "u8", "arr": "fixed", "n": 2 * (k + 2) + 1, "ntext": "DIRK * 2 + 1",
                                  "opt": False},
                                 {"name": "pad2", "type": "u16", "arr": "fixed", "n": 2 * (k + 2), "ntext": "DIRK2", "opt": False},
                                 {"name": "tail", "type": "u32", "arr": None, "opt": False}]}]
                    files[name] = render.isar_text(common + [t] + extra)
                    inputs.append(name)
                self.isar = True
                self.faults["isar_inputs_same_names_other_values"] = 1
                return files, inputs
            if self.plan.get("variant") == 2:
                files["inc/common.prophy"] = render.prophy_text({"defs": common})
                files["inc0/unrelated.prophy"] = "const UNRELATED = 1;\n"
                inputs = []
                for k, t in enumerate(tails):
                    name = "t%d/tail%d.prophy" % (k, k)
                    files[name] = render.prophy_text({"defs": [t]}, includes=["common.prophy"])
                    inputs.append(name)
                self.incdirs = ["inc0", "inc"]
                self.faults["include_found_through_last_-I"] = 1
                return files, inputs
            files["common.prophy"] = render.prophy_text({"defs": common})
            inputs = []
            for k, t in enumerate(tails):
                name = "tail%d.prophy" % k
                files[name] = render.prophy_text({"defs": [t]}, includes=["common.prophy"])
                inputs.append(name)
            inputs.append("common.prophy")
        return files, inputs

    # ---- fresh interpreters
    def run_process(self, root, cwd, hashseed, inputs, absolute, outdir):
        os.makedirs(outdir, exist_ok=True)

        def show(p):
            return p if absolute else os.path.relpath(p, cwd)
        argv = [sys.executable, "-B", "-m", "prophyc"] + (["--isar"] if self.isar else [])
        for o in OUT_OPTS:
            argv += [o, show(outdir)]
        for d in self.incdirs:
            argv += ["-I", show(os.path.join(root, "src", d))]
        if self.patch:
            argv += ["--patch", show(os.path.join(root, "src", self.patch))]
        argv += [show(os.path.join(root, "src", i)) for i in inputs]
        env = {"PYTHONHASHSEED": str(hashseed), "PYTHONPATH": REPO, "PATH": os.environ.get("PATH", ""),
               "PYTHONDONTWRITEBYTECODE": "1"}
        p = subprocess.run(argv, cwd=cwd, env=env, stdout=subprocess.PIPE, stderr=subprocess.PIPE, timeout=120)
        return p.returncode, p.stderr.decode("utf-8", "replace")

    def collect(self, outdir, bases):
        out = {}
        for b in bases:
            for e in EXTS:
                p = os.path.join(outdir, b + e)
                if os.path.exists(p):
                    with open(p, "rb") as f:
                        out[b + e] = f.read()
        return out

    def run(self):
        plan = self.plan
        files, inputs = self.layout()
        bases = [os.path.splitext(os.path.basename(i))[0] for i in inputs]
        root = tempfile.mkdtemp(prefix="verif-det-", dir="/dev/shm" if os.path.isdir("/dev/shm") else None)
        try:
            os.makedirs(os.path.join(root, "src"))
            os.makedirs(os.path.join(root, "other", "deep"))
            for n, t in files.items():
                os.makedirs(os.path.dirname(os.path.join(root, "src", n)), exist_ok=True)
                with open(os.path.join(root, "src", n), "w") as f:
                    f.write(t)
            cwds = [root, os.path.join(root, "src"), os.path.join(root, "other", "deep")]
            indep = [i for i in inputs if os.path.basename(i).startswith("tail")] or inputs
            rest = [i for i in inputs if i not in indep]
            orders = [list(p) + rest for p in itertools.permutations(indep)][:6]
            configs = []
            for hs in plan["hashseeds"]:
                configs.append((hs, 0, 0, 1))
            for ci in (1, 2):
                configs.append((0, ci, 0, 0))
                configs.append((plan["hashseeds"][5], ci, 0, 1))
            for oi in range(1, len(orders)):
                configs.append((plan["hashseeds"][6], 0, oi, 1))
            # always: the baseline + a tape-chosen subset
            chosen = [configs[0]]
            pool = configs[1:]
            for k in range(min(plan["nproc"], len(pool))):
                chosen.append(pool.pop(plan["pick"][k % len(plan["pick"])] % len(pool)))
            base_out = None
            for n, (hs, ci, oi, absolute) in enumerate(chosen):
                outdir = os.path.join(root, "out%d" % n)
                rc, err = self.run_process(root, cwds[ci], hs, orders[oi % len(orders)], absolute, outdir)
                desc = "PYTHONHASHSEED=%s cwd=%s order=%s %s" % (hs, ["root", "src", "other/deep"][ci],
                                                                  orders[oi % len(orders)], "abs" if absolute else "rel")
                self.trace.append("process: %s -> rc %s" % (desc, rc))
                self.count("fresh_interpreters")
                self.faults["hashseed"] = self.faults.get("hashseed", 0) + (1 if hs != 0 else 0)
                self.faults["cwd"] = self.faults.get("cwd", 0) + (1 if ci else 0)
                self.faults["argv_order"] = self.faults.get("argv_order", 0) + (1 if oi else 0)
                if rc != 0:
                    if n == 0:
                        self.count("baseline_compile_failed")
                        self.trace.append(err[:300])
                        # a schema that does not compile at all is not C20's business (C12/C13) - unless every input
                        # compiles when it is compiled alone: then one file changed what happens to another
                        if len(inputs) > 1 and all(self.compile_in_process(files, [i]) is not None for i in inputs):
                            return self.v("rc", "C20/compile-together-fails-but-each-alone-succeeds",
                                          "every input compiles alone, but one invocation with [%s] fails: %s" %
                                          (" ".join(inputs), err[:300]))
                        return None
                    return self.v("rc", "C20/exit-status-differs", "baseline succeeded, but with %s prophyc failed: %s" %
                                  (desc, err[:300]))
                got = self.collect(outdir, bases)
                if base_out is None:
                    base_out = got
                    for k in sorted(got):
                        self.log.update(k.encode() + hashlib.sha1(got[k]).digest())
                    continue
                diff = [k for k in sorted(set(got) | set(base_out)) if got.get(k) != base_out.get(k)]
                if diff:
                    kind = "hashseed" if hs != chosen[0][0] and ci == 0 and oi == 0 else "cwd" if ci else "argv-order"
                    return self.v("content", "C20/output-differs/%s/%s" % (kind, os.path.splitext(diff[0])[1] or diff[0]),
                                  "%s differs between [%s] and the baseline [PYTHONHASHSEED=0 cwd=root]: %s" %
                                  (diff, desc, _first_diff(base_out.get(diff[0], b""), got.get(diff[0], b""))))
                self.states.add("%s|%s|%s" % (hs != 0, ci, oi))
            # ---- one interpreter, many compiles (simulated file system)
            v = self.in_process(files, inputs, bases, base_out)
            if v:
                return v
        finally:
            shutil.rmtree(root, ignore_errors=True)
        return None

    def compile_in_process(self, files, inputs):
        fs = simfs.FakeFS("/w")
        fs.mkdir("/w/out")
        for n, t in files.items():
            fs.put("/w/src/" + n, t)
        argv = ["--isar"] if self.isar else []
        for o in OUT_OPTS:
            argv += [o, "/w/out"]
        for d in self.incdirs:
            if fs.isdir("/w/src/" + d):
                argv += ["-I", "/w/src/" + d]
        if self.patch and fs.isfile("/w/src/" + self.patch):
            argv += ["--patch", "/w/src/" + self.patch]
        argv += ["/w/src/" + i for i in inputs]
        nodes, exc, so, se = simworld.run_prophyc(fs, argv)
        if exc is not None:
            return None
        return {k[len("/w/out/"):]: v.encode("utf-8") for k, v in fs.files.items() if k.startswith("/w/out/")}

    def in_process(self, files, inputs, bases, base_out):
        first = self.compile_in_process(files, inputs)
        if first is None:
            return None
        self.count("in_process_compiles")
        if base_out is not None:
            diff = [k for k in sorted(first) if k in base_out and first[k] != base_out[k]]
            if diff:
                return self.v("content", "C20/output-differs/in-process-vs-fresh/%s" % os.path.splitext(diff[0])[1],
                              "%s differs between a fresh interpreter and the in-process compile: %s" %
                              (diff, _first_diff(base_out[diff[0]], first[diff[0]])))
        # repeated
        for k in range(2):
            again = self.compile_in_process(files, inputs)
            self.count("in_process_compiles")
            if again != first:
                return self.v("content", "C20/output-differs/repeated-run", "outputs of repeated compiles in one "
                              "interpreter differ: %s" % [x for x in first if again.get(x) != first[x]])
        # each file alone, before and after the others, and after an unrelated schema defining the same names
        from sim.tape import Tape
        usch = gs.gen_schema(Tape(self.plan["unrelated"]), cpp=True)
        if not self.isar:
            unrelated = render.prophy_text(usch)
            self.compile_in_process({"common.prophy": unrelated, "single.prophy": unrelated}, ["common.prophy"])
        else:
            unrelated = render.isar_text((usch["defs"] if render.isar_expressible(usch) else []) + [
                {"k": "const", "name": "DIRK", "expr": "7"}, {"k": "const", "name": "DIRK2", "expr": "DIRK * 2"}])
            self.compile_in_process({"common.xml": unrelated}, ["common.xml"])
        self.faults["stale_state"] = self.faults.get("stale_state", 0) + 1
        for i in inputs:
            alone = self.compile_in_process(files, [i])
            self.count("in_process_compiles")
            if alone is None:
                return self.v("rc", "C20/compile-alone-fails", "%s compiles together with the others but not alone" % i)
            b = os.path.splitext(os.path.basename(i))[0]
            for k, val in alone.items():
                if k.startswith(b + ".") and first.get(k) != val:
                    return self.v("content", "C20/output-differs/alone-vs-together/%s" % os.path.splitext(k)[1],
                                  "%s differs when %s is compiled alone (after an unrelated schema) vs. with %s: %s" %
                                  (k, i, inputs, _first_diff(first.get(k, b""), val)))
        if len(inputs) > 1:
            rev = self.compile_in_process(files, inputs[::-1])
            self.count("in_process_compiles")
            if rev != first:
                return self.v("content", "C20/output-differs/argv-order-in-process", "outputs differ for reversed "
                              "input order: %s" % [x for x in first if rev.get(x) != first[x]])
            self.faults["argv_order"] = self.faults.get("argv_order", 0) + 1
        return None


def _first_diff(a, b):
    la, lb = a.decode("utf-8", "replace").split("\n"), b.decode("utf-8", "replace").split("\n")
    for i, (x, y) in enumerate(zip(la, lb)):
        if x != y:
            return "line %d: %r vs %r" % (i + 1, x[:160], y[:160])
    return "length %d vs %d lines" % (len(la), len(lb))


def execute(plan, armed):
    run = DetRun(plan, armed)
    v = run.run()
    shape = gs.shape_digest(plan["schema"])
    return {"violation": v.as_dict() if v else None, "soft": [], "stats": run.stats, "probes": run.probes,
            "faults": run.faults, "states": set("%s:%s" % (shape, s) for s in run.states),
            "digest": run.log.hexdigest(), "trace": run.trace, "steps": run.stats.get("fresh_interpreters", 0),
            "nontrivial": run.stats.get("fresh_interpreters", 0) > 1 and not run.stats.get("baseline_compile_failed"),
            "sample": {"configurations": run.trace[:8]}}
