"""S-LINK, Python reader (C06): a stored/transmitted encoding meets every fault of sim/link.py, then the real
prophy decode runs under the step clock and the memory meter.

Fault-free control arm: the intact reference encoding must decode to the value (that is C02/C01 territory and is
only counted here).
"""
import hashlib
import struct as _struct
import tracemalloc

from refmodel import types as rt
from refmodel import wire, msgmodel as mm
from gen import schema as gs, values as gv, render
from sim import world as simworld, link
from sim.clock import StepClock, SimTimeout
from sim.tape import Tape
from . import pyapi
from .pymsg import Violation, _msgkey

# committed calibration constants (measured once on intact encodings, times 40; see DESIGN.md C06)
STEP_A, STEP_B = 4000, 400          # line events allowed: A + B * (len(F) + static size of T)
MEM_A, MEM_B = 200000, 3000          # peak traced bytes allowed: A + B * len(F)


def make_plan(tape, prop):
    schema = gs.gen_schema(tape)
    comps = gs.composites(schema)
    k = tape.draw(64)
    plan = {"sim": "linkpy", "prop": prop, "schema": schema,
            "msg_name": comps[-1] if k % 4 else comps[(k // 4) % len(comps)]}
    nvals = 1 + tape.draw(2)
    plan["values"] = [[tape.draw(1 << 16) for _ in range(48)] for _ in range(nvals)]
    plan["big"] = tape.chance(1, 6)
    plan["fault_seed"] = tape.draw(1 << 30)
    plan["single"] = None
    if prop == "C02":
        plan["control_only"] = True
        plan["values"] += [[tape.draw(1 << 16) for _ in range(48)] for _ in range(4)]
    return plan


def canon(t, tree):
    """tree with floats replaced by their packed form (NaN-safe equality)"""
    if t.cat == "scalar":
        if t.is_float:
            return _struct.pack("<d", tree).hex() if tree is not None else None
        return tree
    if t.cat == "enum":
        return tree
    if t.cat == "union":
        if tree.get("@arm") is None:
            return tree
        name, at, _ = t.by_name[tree["@arm"]]
        return {"@arm": name, "v": canon(at, tree["v"])}
    out = {}
    for m in t.members:
        if m.sizes:
            continue
        v = tree[m.name]
        if m.is_bytes:
            out[m.name] = v
        elif m.arr:
            out[m.name] = [canon(m.type, x) for x in v]
        elif m.opt:
            out[m.name] = None if v is None else canon(m.type, v)
        else:
            out[m.name] = canon(m.type, v)
    return out


class LinkRun(object):
    def __init__(self, plan, armed):
        self.plan = plan
        self.armed = armed
        self.stats = {}
        self.faults = {}
        self.probes = {}
        self.states = set()
        self.log = hashlib.sha1()
        self.trace = []
        self.steps = 0
        self.max_step_ratio = 0.0
        self.max_mem_ratio = 0.0

    def count(self, k, n=1):
        self.stats[k] = self.stats.get(k, 0) + n

    def setup(self):
        schema = self.plan["schema"]
        self.R = rt.Resolved(schema)
        self.text = render.prophy_text(schema)
        self.world = simworld.World(self.text)
        self.tname = self.plan["msg_name"]
        self.T = self.R.types[self.tname]
        self.cls = self.world.cls(self.tname)
        self.static = self.T.size if self.T.size is not None else 64

    def decode_one(self, F, e, meter):
        """-> (outcome, detail, message object) outcome in ret/err/timeout/exc"""
        m = self.cls()
        budget = STEP_A + STEP_B * (len(F) + self.static)
        if meter:
            tracemalloc.start()
            tracemalloc.reset_peak()
            base = tracemalloc.get_traced_memory()[0]
        clock = StepClock(budget)
        try:
            with clock:
                try:
                    n = m.decode(F, e)
                    out = ("ret", n, m)
                except Exception as x:
                    if type(x).__name__ == "ProphyError":
                        out = ("err", x, None)
                    else:
                        out = ("exc", x, None)
        except SimTimeout as x:
            out = ("timeout", x, None)
        finally:
            if meter:
                peak = tracemalloc.get_traced_memory()[1] - base
                tracemalloc.stop()
            else:
                peak = None
        self.steps += clock.steps
        ratio = clock.steps / float(len(F) + self.static + 10)
        if ratio > self.max_step_ratio:
            self.max_step_ratio = ratio
        return out, peak, clock.steps

    def check_fault(self, vi, e, E, wmap, fault):
        """-> Violation | None"""
        F = link.apply(E, fault)
        fk = link.fault_kind(fault)
        self.faults[fk.split(":")[0]] = self.faults.get(fk.split(":")[0], 0) + 1
        meter = fault["k"] in ("ctrl", "multi", "random") or (fault["k"] == "flip" and fault["bit"] % 4 == 0)
        (kind, detail, m), peak, steps = self.decode_one(F, e, meter)
        where = link.landed_in(wmap, fault)
        self.log.update(("%s:%s:%d;" % (fk, kind, len(F))).encode())
        self.states.add("%s|%s|%s" % (fk, where, kind))
        self.count("decodes")
        self.count("outcome:" + kind)

        def viol(tag, ck, msg):
            v = Violation("C06", tag, "C06/%s/%s/%s" % (ck, fk, where), vi,
                          "%s; fault %r on %s-endian encoding %s of value %d -> input %s" %
                          (msg, fault, "little" if e == "<" else "big", _short(E), vi, _short(F)))
            v.fault = {"value": vi, "e": e, "fault": fault}
            return v
        if kind == "timeout":
            return viol("hang", "step-budget", "decode exceeded %d line events for %d input bytes" %
                        (STEP_A + STEP_B * (len(F) + self.static), len(F)))
        if kind == "exc":
            return viol("exception", "raised:%s" % type(detail).__name__,
                        "decode raised %s: %s" % (type(detail).__name__, detail))
        if peak is not None:
            self.count("metered")
            r = peak / float(len(F) + 100)
            if r > self.max_mem_ratio:
                self.max_mem_ratio = r
            if peak > MEM_A + MEM_B * len(F):
                return viol("memory", "memory", "decode allocated a peak of %d bytes for %d input bytes" % (peak, len(F)))
        if kind == "ret":
            # the decoded message must encode, and decoding that encoding must be a fixpoint
            try:
                enc = m.encode(e)
            except Exception as x:
                return viol("reencode", "reencode-raised:%s" % type(x).__name__,
                            "decode returned but encode of the result raised %s: %s" % (type(x).__name__, x))
            notes = []
            try:
                tree1 = pyapi.observe(self.T, m, notes)
            except Exception as x:
                return viol("observe", "observe-raised:%s" % type(x).__name__,
                            "decode returned but reading the result raised %s: %s" % (type(x).__name__, x))
            aligned = True
            try:
                aligned = wire.greedy_tail_aligned(self.T, tree1)
            except Exception:
                aligned = False
            if not aligned:
                # C02's documented exception: trailing padding of an unaligned greedy tail re-decodes as elements
                self.count("fixpoint_skipped_unaligned_greedy")
                return None
            m2 = self.cls()
            try:
                n2 = m2.decode(enc, e)
            except Exception as x:
                return viol("fixpoint", "fixpoint-decode-raised:%s" % type(x).__name__,
                            "re-decoding the re-encoding %s raised %s: %s" % (_short(enc), type(x).__name__, x))
            if aligned:
                tree2 = pyapi.observe(self.T, m2, [])
                if canon(self.T, tree1) != canon(self.T, tree2):
                    return viol("fixpoint", "fixpoint-value", "decode(encode(decode(F))) differs in value: %r vs %r" %
                                (tree1, tree2))
                enc2 = m2.encode(e)
                if enc2 != enc:
                    return viol("fixpoint", "fixpoint-bytes", "re-encoding is not stable: %s vs %s" %
                                (_short(enc), _short(enc2)))
                self.count("fixpoints")
        return None

    def control_arm(self, vi, e, E, tree, kind, detail, m):
        """C02 on the intact reference encoding (the fault-free arm of the same pipeline)"""
        T = self.T
        if not wire.greedy_tail_aligned(T, tree):
            self.count("control_skipped_unaligned_greedy")
            return None
        longest = _longest_array(T, tree)

        def viol(tag, ck, msg):
            v = Violation("C02", tag, ck, vi, "%s; %s-endian canonical encoding %s" %
                          (msg, "little" if e == "<" else "big", _short(E)))
            v.fault = {"value": vi, "e": e, "fault": {"k": "none"}}
            return v
        if kind != "ret":
            if longest > 65536 and kind == "err":
                self.probes["array_longer_than_65536"] = self.probes.get("array_longer_than_65536", 0) + 1
                return viol("intact-rejected", "C02/intact-rejected/array-longer-than-65536",
                            "a message holding an array of %d elements encodes but its encoding is refused by decode (%s)" %
                            (longest, detail))
            return viol("intact-rejected", "C02/intact-rejected/%s" % (type(detail).__name__ if kind != "timeout" else "timeout"),
                        "decode of the canonical encoding did not return: %s %s" % (kind, detail))
        if detail != len(E):
            return viol("consumed", "C02/consumed-length", "decode consumed %r of %d bytes" % (detail, len(E)))
        got = pyapi.observe(T, m, [])
        want = mm.wire_round(T, tree)
        if canon(T, got) != canon(T, want):
            return viol("value", "C02/value-mismatch", "decoded %r, expected %r" % (got, want))
        if m.encode(e) != E:
            return viol("reencode", "C02/reencode-mismatch", "re-encoding differs from the canonical bytes")
        self.count("control_roundtrips")
        self.states.add("control|%s|%s" % (e, mm.abstract_digest(T, tree)))
        return None

    def run(self):
        plan = self.plan
        self.setup()
        single = plan.get("single")
        for vi, vt in enumerate(plan["values"]):
            if single and single["value"] != vi:
                continue
            tree = gv.draw_tree(Tape(replay=vt), self.T, big_ok=plan.get("big", False))
            self.trace.append("value %d: %s" % (vi, mm.abstract_digest(self.T, tree)))
            for e in "<>":
                if single and single["e"] != e:
                    continue
                try:
                    E, wmap = wire.encode(self.T, tree, e, with_map=True)
                except (wire.CounterOverflow, wire.RefuseEncode):
                    self.count("value_not_encodable")
                    continue
                # control arm: the intact encoding (counted, and its cost feeds the calibration probe)
                (kind, detail, m), _, steps = self.decode_one(E, e, False)
                self.count("intact:" + kind)
                if "C02" in self.armed:
                    v = self.control_arm(vi, e, E, tree, kind, detail, m)
                    if v is not None:
                        return v
                    if plan.get("control_only"):
                        continue
                if single:
                    faults = [single["fault"]]
                else:
                    if len(E) > 2048:
                        # very long encodings (array lengths around 2**16): a boundary-biased handful of each kind
                        faults = link.enumerate_faults(E, wmap, e, plan["fault_seed"] + vi, nsample=6, max_ctrl=24)
                        self.count("long_encodings")
                    else:
                        faults = link.enumerate_faults(E, wmap, e, plan["fault_seed"] + vi)
                for f in faults:
                    v = self.check_fault(vi, e, E, wmap, f)
                    if v is not None:
                        self.trace.append("fault %r -> %s" % (f, v.class_key))
                        return v
        return None


def _longest_array(t, tree):
    if t.cat == "union":
        name, at, _ = t.by_name[tree["@arm"]]
        return _longest_array(at, tree["v"]) if at.cat in ("struct", "union") else 0
    if t.cat != "struct":
        return 0
    n = 0
    for m in t.members:
        if m.sizes:
            continue
        v = tree[m.name]
        if m.arr and not m.is_bytes:
            n = max(n, len(v))
            if m.type.cat in ("struct", "union"):
                n = max([n] + [_longest_array(m.type, x) for x in v])
        elif m.is_bytes:
            n = max(n, len(v))
        elif v is not None and m.type.cat in ("struct", "union"):
            n = max(n, _longest_array(m.type, v))
    return n


def _short(b):
    h = bytes(b).hex()
    return h if len(h) <= 400 else h[:200] + "...(%d bytes)..." % len(b) + h[-100:]


def execute(plan, armed):
    run = LinkRun(plan, armed)
    v = None
    try:
        v = run.run()
    except simworld.CompileFailed as e:
        run.count("world_failed")
    shape = gs.shape_digest(plan["schema"])
    vd = None
    if v is not None and v.prop in armed:
        vd = v.as_dict()
        vd["fault"] = getattr(v, "fault", None)
    nontriv = run.stats.get("decodes", 0) > 0 or run.stats.get("control_roundtrips", 0) > 0
    return {
        "violation": vd, "soft": [], "stats": dict(run.stats, max_step_ratio_x1000=0, max_mem_ratio_x1000=0),
        "probes": run.probes, "faults": run.faults,
        "states": set("%s:%s" % (shape, s) for s in run.states),
        "digest": run.log.hexdigest(), "trace": run.trace, "steps": run.steps, "nontrivial": nontriv,
        "sample": {"schema": getattr(run, "text", ""), "message_type": plan["msg_name"], "values": len(plan["values"]),
                   "decodes": run.stats.get("decodes", 0)},
        "ratios": (run.max_step_ratio, run.max_mem_ratio),
    }


def simplify_plan(plan, same):
    """reduce to the single failing (value, byte order, fault)"""
    import copy
    res = execute(plan, {plan.get("prop", "C06")})
    v = res.get("violation")
    if v and v.get("fault"):
        cand = copy.deepcopy(plan)
        cand["single"] = v["fault"]
        if same(cand):
            plan = cand
    from .pymsg import simplify_plan as schema_simplify
    return schema_simplify(plan, same, max_exec=150)
