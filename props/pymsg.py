"""S-HIST: histories of public API operations on two live messages against the reference message model.

Serves C10, C11 (native) and C01, C02, C18(py), C19(py) as per-step observables.
plan -> execute() never draws; every choice is an integer already present in the plan.
"""
import hashlib

from refmodel import types as rt
from refmodel import wire, text, msgmodel as mm
from refmodel.msgmodel import Reject
from gen import values as gv
from gen import schema as gs
from gen import render
from sim import world as simworld
from . import pyapi


class SimFault(Exception):
    """raised by harness-supplied faulting iterables"""


class FaultingIterable(object):
    """list-like argument that raises after k elements were taken"""

    def __init__(self, items, k):
        self._items = list(items)
        self._k = k

    def __len__(self):
        return len(self._items)

    def __bool__(self):
        return True

    def __iter__(self):
        for i, x in enumerate(self._items):
            if i == self._k:
                raise SimFault("iterable fault at %d" % i)
            yield x
        if self._k >= len(self._items):
            raise SimFault("iterable fault at end")


import operator as _operator

ALLOWED = {
    "value": ("ProphyError",),
    "index": ("ProphyError", "IndexError", "ValueError"),
    "missing": ("ProphyError", "ValueError", "IndexError"),
    "slice": ("ProphyError", "ValueError"),
    "attr": ("AttributeError",),
    # a container argument of the wrong kind (not iterable, not an index, not an element of this array): the pinned
    # tests demand TypeError for some of these; "ok" = may also be a silent no-op; the state must not change either way
    "confused": ("ProphyError", "TypeError"),
    "confused-or-noop": ("ProphyError", "TypeError", "ok"),
    # item assignment to an array of composites: the pinned suite only says "raises"; the runtime has no __setitem__
    "confused-item": ("ProphyError", "TypeError", "AttributeError"),
    "fault": ("SimFault", "ProphyError"),
}

OBS_MODES = ["all", "addressed", "every_k", "encode_only", "end_only"]


class Violation(object):
    def __init__(self, prop, tag, class_key, step, message):
        self.prop = prop
        self.tag = tag
        self.class_key = class_key
        self.step = step
        self.message = message

    def as_dict(self):
        return {"property": self.prop, "oracle_tag": self.tag, "class_key": self.class_key, "step": self.step,
                "message": self.message}


class Stop(Exception):
    def __init__(self, violation):
        self.violation = violation


class Target(object):
    __slots__ = ("kind", "ptype", "pref", "pobj", "m", "arm", "live", "desc", "mi")


# ---------------------------------------------------------------------------- planning

PROFILES = {
    # weights: (max_ops, obs mode weights [all, addressed, every_k, encode_only, end_only], copy weight)
    "C10": {"max_ops": 40, "obs": [8, 3, 3, 2, 4], "copy": 1},
    "C11": {"max_ops": 30, "obs": [6, 2, 2, 2, 8], "copy": 6},
    "C01": {"max_ops": 12, "obs": [10, 1, 2, 6, 1], "copy": 1},
    "C02": {"max_ops": 12, "obs": [10, 1, 2, 6, 1], "copy": 1},
    "C18": {"max_ops": 12, "obs": [10, 2, 2, 0, 2], "copy": 1},
    "C19": {"max_ops": 12, "obs": [10, 1, 2, 6, 1], "copy": 1},
    "C06": {"max_ops": 8, "obs": [1, 0, 0, 0, 8], "copy": 1},
    "C04": {"max_ops": 6, "obs": [4, 0, 0, 4, 4], "copy": 1},
}


def make_plan(tape, prop, cpp=False):
    prof = PROFILES[prop]
    schema = gs.gen_schema(tape, cpp=cpp)
    plan = {"sim": "hist", "prop": prop, "schema": schema}
    k = tape.draw(64)
    comps = gs.composites(schema)
    # the message type: biased to the last composite (it can use everything before it)
    plan["msg_name"] = comps[-1] if k % 4 else comps[(k // 4) % len(comps)]
    plan["obs"] = tape.weighted(prof["obs"])
    plan["obs_k"] = 2 + tape.draw(5)
    plan["seed_values"] = [tape.draw(2), tape.draw(2)]   # start message from a drawn value instead of default
    plan["value_tape"] = [tape.draw(1 << 16) for _ in range(24)] if any(plan["seed_values"]) else []
    ops = []
    while tape.more(7, 8, cap=prof["max_ops"], have=len(ops)):
        op = {"m": tape.draw(2)}
        if tape.draw(10 + prof["copy"]) >= 10:
            op["copy"] = 1 + tape.draw(3)
        op["path"] = [tape.draw(16)]
        while tape.more(1, 2, cap=5, have=len(op["path"])):
            op["path"].append(tape.draw(16))
        op["k"] = tape.draw(64)
        op["a"] = [tape.draw(1 << 12) for _ in range(4)]
        ops.append(op)
    plan["ops"] = ops
    return plan


# ---------------------------------------------------------------------------- execution

class HistRun(object):
    def __init__(self, plan, props, probes=None):
        self.plan = plan
        self.props = props              # set of property ids whose oracles are armed
        self.trace = []
        self.log = hashlib.sha1()
        self.stats = {}
        self.states = set()
        self.probes = probes if probes is not None else {}
        self.step = -1
        self.final = None
        self.soft = {}
        self.unarmed_end = None

    # ---- helpers
    def count(self, k, n=1):
        self.stats[k] = self.stats.get(k, 0) + n

    def probe(self, k):
        self.probes[k] = self.probes.get(k, 0) + 1

    def note(self, s):
        self.trace.append(s)
        self.log.update(s.encode("utf-8", "backslashreplace"))

    def fail(self, prop, tag, class_key, message, diverged=False):
        """Report an oracle failure. Armed property: stop the run with the violation. Unarmed property: count it
        and go on, unless model and runtime have diverged (then the run ends silently)."""
        if prop in self.props or diverged:
            raise Stop(Violation(prop, tag, class_key, self.step, message))
        self.count("unarmed:" + prop)

    def soft_finding(self, prop, tag, class_key, message):
        """an oracle failure after which checking can soundly continue (the observed value was normalised):
        recorded once per run; the runner reports it as VIOLATION or KNOWN-FINDING like any other"""
        if prop in self.props and class_key not in self.soft:
            self.soft[class_key] = Violation(prop, tag, class_key, self.step, message)

    # ---- world
    def setup(self):
        plan = self.plan
        schema = plan["schema"]
        self.R = rt.Resolved(schema)
        self.text = render.prophy_text(schema)
        try:
            self.world = simworld.World(self.text)
        except Exception as e:
            # a valid schema that the tool-chain cannot turn into an importable module: C12's business
            inner = getattr(e, "exc", e)
            self.fail("C12", "world", "C12/world/%s/%s" % (type(inner).__name__, _msgkey(inner)),
                      "valid schema not realised by prophyc --python_out + import: %s: %s" %
                      (type(inner).__name__, str(inner)[:300]), diverged=True)
        if "C04" in self.props:
            from . import layout_oracle
            for ck, msg in layout_oracle.check_layout(self.R, self.world.nodes, self.world.module):
                self.fail("C04", "layout", ck, msg + " (prophy-language input, declaration order)")
            self.count("layout_checked_types", len(self.R.composites()))
        self.tname = plan["msg_name"]
        self.T = self.R.types[self.tname]
        self.cls = self.world.cls(self.tname)
        self.msg = [self.cls(), self.cls()]
        self.ref = [mm.default_tree(self.T), mm.default_tree(self.T)]
        if plan.get("value_tape"):
            from sim.tape import Tape
            vt = Tape(replay=plan["value_tape"])
            for i in (0, 1):
                if plan["seed_values"][i]:
                    tree = gv.draw_tree(vt, self.T)
                    self.ref[i] = tree
                    self.msg[i] = pyapi.build(self.world, self.T, tree)
                    self.note("m%d := built %s" % (i, mm.abstract_digest(self.T, tree)))

    # ---- observation
    def observe_msg(self, i, what=("state", "text", "enc<", "enc>")):
        T, obj, ref = self.T, self.msg[i], self.ref[i]
        if "state" in what:
            notes = []
            try:
                got = pyapi.observe(T, obj, notes)
            except Exception as e:
                self.fail(self.state_prop(i), "observe", "%s/observe/raised:%s/%s" %
                          (self.state_prop(i), type(e).__name__, self.last_key),
                          "reading message %d raised %s: %s (after %s)" % (i, type(e).__name__, e, self.last_desc),
                          diverged=True)
            soft = [n for n in notes if n.startswith("@")]
            notes = [n for n in notes if not n.startswith("@")]
            if soft:
                self.soft_finding("C10", "observe", "C10/observe/bytes-default-reads-str",
                                  "a bytes field that was never assigned reads back as str '' (message %d: %s)" %
                                  (i, soft[0]))
            if notes:
                self.fail("C10", "observe", "C10/observe/%s" % notes[0].split(" ")[0],
                          "message %d: %s" % (i, "; ".join(notes)), diverged=True)
            if got != ref:
                p = self.state_prop(i)
                self.fail(p, "state", "%s/state-mismatch/%s" % (p, self.last_key),
                          "message %d reads %r, model says %r (after %s)" % (i, got, ref, self.last_desc),
                          diverged=True)
            self.count("obs_state")
        if "text" in what:
            want = text.render(T, ref)
            try:
                got = str(obj)
            except Exception as e:
                got = None
                self.fail("C18", "str", "C18/py/str-raised:%s" % type(e).__name__,
                          "str(message %d) raised %s: %s" % (i, type(e).__name__, e))
            if got is not None and not text.text_matches(want, got):
                import re
                norm = re.sub(r"(?m)^( *\w+): '$", r"\1: ''", got)
                if norm != got and text.text_matches(want, norm):
                    # same root cause as C10/observe/bytes-default-reads-str: repr('')[1:] == "'"
                    self.soft_finding("C18", "py-text", "C18/py/bytes-default-renders-one-quote",
                                      "a never-assigned bytes field renders as %r instead of \"f: ''\"" %
                                      got[:60])
                else:
                    self.fail("C18", "py-text", "C18/py/text-mismatch/%s" % _first_diff_line(want, got),
                              "str(message %d) = %r, reference %r" % (i, got, want))
            self.count("obs_text")
        encs = {}
        for e in "<>":
            if "enc" + e not in what:
                continue
            try:
                want, wmap = wire.encode(T, ref, e, with_map=True)
                refuse = None
            except wire.RefuseEncode:
                want, wmap, refuse = None, None, "refuse"
            except wire.CounterOverflow:
                want, wmap, refuse = None, None, "overflow"
            try:
                got = obj.encode(e)
                exc = None
            except Exception as x:
                got, exc = None, x
            if refuse == "refuse":
                self.probe("unequal_lengths_on_shared_sizer")
                if exc is None or type(exc).__name__ != "ProphyError":
                    self.fail("C10", "encode-refusal", "C10/encode/unequal-sizer-lengths/%s" %
                              ("accepted" if exc is None else type(exc).__name__),
                              "arrays on one sizer have unequal lengths; encode %s" %
                              ("returned" if exc is None else "raised %r" % exc))
                self.count("enc_refused")
                continue
            if refuse == "overflow":
                self.probe("count_exceeds_sizer_type")
                # a reachable state that can not be encoded at all; the docs do not say what should happen
                self.fail("C10", "encode-sizer-overflow", "C10/encode/sizer-overflow",
                          "element count does not fit the sizer type; encode %s" %
                          ("returned" if exc is None else "raised %r" % exc))
                continue
            if exc is not None:
                self.fail("C10", "encode", "C10/encode/raised:%s/%s" % (type(exc).__name__, _msgkey(exc)),
                          "encode(%r) of a reachable state raised %s: %s" % (e, type(exc).__name__, exc))
                continue
            wire.check_map(want, wmap)
            if got != want:
                s, en, kind, width, path = _first_diff_range(want, got, wmap)[:5]
                self.fail("C01", "bytes", "C01/%s/%s" % ("length" if len(got) != len(want) else "bytes",
                                                            _path_kind(self.T, path, kind)),
                          "encode(%r) = %s, canonical %s; first difference in %s %s [%d:%d]" %
                          (e, got.hex(), want.hex(), kind, path, s, en))
            self.count("obs_enc")
            if T.stiff == rt.FIXED and len(got) != T.size:
                self.fail("C04", "fixed-len", "C04/py/fixed-encoding-length",
                          "fixed type %s encodes to %d bytes, layout says %d" % (T.name, len(got), T.size))
            encs[e] = (got, wmap, got == want)
            self.log.update(got)
        if len(encs) == 2:
            le, be = encs["<"], encs[">"]
            if le[2] or be[2]:
                bad = wire.compare_orders(le[0], be[0], le[1])
                if bad:
                    self.fail("C19", "py-orders", "C19/py/%s-w%d" % (bad[2], bad[1] - bad[0] if bad[2] != "padding" else 0),
                              "little/big encodings differ beyond scalar byte reversal at %r: %s vs %s" %
                              (bad, le[0].hex(), be[0].hex()))
                self.count("obs_c19")
            else:
                self.count("c19_unmapped")
                if len(le[0]) != len(be[0]) or sorted(le[0]) != sorted(be[0]):
                    self.fail("C19", "py-orders-unmapped", "C19/py/unmapped", "little/big encodings are not permutations")
            self.states.add(mm.abstract_digest(T, ref))
        return encs

    def state_prop(self, i):
        """a state mismatch right after copy_from / composite extend, or in the message the last operation did
        not address once something was copied, is an independence failure (C11); otherwise C10"""
        if self.last_key == "copy_from" or self.last_key.startswith("extend/array_") and self.last_comp_extend:
            return "C11"
        if self.copied and i != self.last_mi:
            return "C11"
        return "C10"

    def roundtrip(self, i, encs):
        """C02 on the runtime's own encodings."""
        T, ref = self.T, self.ref[i]
        if not wire.greedy_tail_aligned(T, ref):
            self.count("rt_skipped_unaligned_greedy")
            return
        want_tree = mm.wire_round(T, ref)
        for e, (data, _, _) in sorted(encs.items()):
            fresh = self.cls()
            try:
                n = fresh.decode(data, e)
            except Exception as x:
                self.fail("C02", "decode-raised", "C02/decode-raised:%s/%s" % (type(x).__name__, _msgkey(x)),
                          "decode of own encoding %s raised %s: %s" % (data.hex(), type(x).__name__, x))
            if n != len(data):
                self.fail("C02", "consumed", "C02/consumed-length", "decode consumed %r of %d bytes" % (n, len(data)))
            notes = []
            got = pyapi.observe(T, fresh, notes)
            if notes or got != want_tree:
                self.fail("C02", "value", "C02/value-mismatch", "decoded %r, expected %r %s" % (got, want_tree, notes))
            again = fresh.encode(e)
            if again != data:
                self.fail("C02", "reencode", "C02/reencode-mismatch", "re-encoding %s != %s" % (again.hex(), data.hex()))
            self.count("roundtrips")

    def scheduled_observe(self, addressed, last):
        mode = OBS_MODES[self.plan["obs"]]
        if mode == "all":
            who, what = (0, 1), ("state", "text", "enc<", "enc>")
        elif mode == "addressed":
            who, what = (addressed,), ("state", "text", "enc<", "enc>")
        elif mode == "every_k":
            if (self.step + 1) % self.plan["obs_k"] and not last:
                return
            who, what = (0, 1), ("state", "text", "enc<", "enc>")
        elif mode == "encode_only":
            who, what = (0, 1), ("enc<",) if self.plan["obs_k"] % 2 else ("enc>",)
        else:
            if not last:
                return
            who, what = (0, 1), ("state", "text", "enc<", "enc>")
        if last:
            what = ("state", "text", "enc<", "enc>")
            who = (0, 1)
        for i in who:
            encs = self.observe_msg(i, what)
            if "C02" in self.props and len(encs) == 2:
                self.roundtrip(i, encs)

    # ---- target resolution
    def resolve(self, mi, path):
        t, ref, obj = self.T, self.ref[mi], self.msg[mi]
        i = 0
        desc = "m%d" % mi
        while True:
            p = path[i] if i < len(path) else 0
            i += 1
            tg = Target()
            tg.ptype, tg.pref, tg.pobj = t, ref, obj
            tg.m = tg.arm = None
            tg.live = True
            tg.mi = mi
            if t.cat == "union":
                c = p % (len(t.arms) + 1)
                if c == len(t.arms):
                    tg.kind = "disc"
                    tg.desc = desc + ".discriminator"
                    return tg
                name, at, disc = t.arms[c]
                live = ref["@arm"] == name
                if live and at.cat in ("struct", "union") and i < len(path):
                    obj, ref, t = getattr(obj, name), ref["v"], at
                    desc += "." + name
                    continue
                tg.kind, tg.arm, tg.live = "arm", (name, at, disc), live
                tg.desc = desc + "." + name
                return tg
            m = t.members[p % len(t.members)]
            comp = m.type.cat in ("struct", "union")
            if i < len(path) and comp and not m.sizes:
                if m.arr and not m.is_bytes:
                    if len(ref[m.name]):
                        idx = path[i] % len(ref[m.name])
                        i += 1
                        obj, ref, t = getattr(obj, m.name)[idx], ref[m.name][idx], m.type
                        desc += ".%s[%d]" % (m.name, idx)
                        continue
                elif m.opt:
                    if ref[m.name] is not None:
                        obj, ref, t = getattr(obj, m.name), ref[m.name], m.type
                        desc += "." + m.name
                        if obj is None:
                            raise pyapi.ObserveMismatch("optional %s reads None" % desc)
                        continue
                else:
                    obj, ref, t = getattr(obj, m.name), ref[m.name], m.type
                    desc += "." + m.name
                    continue
            tg.kind, tg.m = "member", m
            tg.desc = desc + "." + m.name
            return tg

    def resolve_node(self, mi, path):
        """deepest composite node reachable along path -> (type, ref, obj, desc)"""
        t, ref, obj = self.T, self.ref[mi], self.msg[mi]
        desc = "m%d" % mi
        i = 0
        while i < len(path):
            p = path[i]
            i += 1
            if t.cat == "union":
                name, at, _ = t.by_name[ref["@arm"]]
                if at.cat not in ("struct", "union") or p % 2 == 0:
                    break
                obj, ref, t = getattr(obj, name), ref["v"], at
                desc += "." + name
                continue
            cands = [m for m in t.members if m.type.cat in ("struct", "union") and not m.is_bytes and (
                (m.arr and len(ref[m.name])) or (m.opt and ref[m.name] is not None) or (not m.arr and not m.opt))]
            if not cands or p % 4 == 0:
                break
            m = cands[(p // 4) % len(cands)]
            if m.arr:
                idx = (path[i] if i < len(path) else 0) % len(ref[m.name])
                i += 1
                obj, ref, t = getattr(obj, m.name)[idx], ref[m.name][idx], m.type
                desc += ".%s[%d]" % (m.name, idx)
            else:
                obj, ref, t = getattr(obj, m.name), ref[m.name], m.type
                desc += "." + m.name
        return t, ref, obj, desc

    # ---- one operation
    def run_op(self, op):
        mi = op["m"]
        if op.get("copy"):
            return self.op_copy(op)
        tg = self.resolve(mi, op["path"])
        if tg.kind == "disc":
            ops = DISC_OPS
        elif tg.kind == "arm":
            ops = ARM_OPS_LIVE if tg.live else ARM_OPS_DEAD
        else:
            ops = ops_for_member(tg.m)
        name = ops[op["k"] % len(ops)]
        fn = getattr(self, "op_" + name)
        r = fn(tg, op["a"])
        if r is None:
            self.count("op_skipped")
            self.note("skip %s %s" % (name, tg.desc))
            return
        desc, run_rt, run_ref, key = r
        self.last_desc, self.last_key = desc, key
        self.apply(desc, key, run_rt, run_ref)

    def apply(self, desc, key, run_rt, run_ref):
        try:
            run_ref()
            verdict = "ok"
        except Reject as r:
            verdict = r.kind
        try:
            run_rt()
            outcome = None
        except pyapi.ObserveMismatch as e:
            self.note("%s -> read mismatch" % desc)
            self.fail(self.state_prop(self.last_mi), "state", "%s/state-mismatch/%s" % (self.state_prop(self.last_mi), key),
                      str(e), diverged=True)
        except Exception as e:
            outcome = e
        oname = type(outcome).__name__ if outcome is not None else "ok"
        self.note("%s -> model:%s runtime:%s" % (desc, verdict, oname))
        self.count("ops")
        self.count("op:" + key.split("/")[0])
        if verdict == "ok":
            self.count("accepted")
            if outcome is not None:
                self.fail("C10", "rejected-valid", "C10/%s/rejected-valid:%s" % (key, oname),
                          "%s is valid by the model but raised %s: %s" % (desc, oname, outcome), diverged=True)
        else:
            self.count("rejected")
            self.count("rejected:" + verdict)
            if outcome is None and "ok" not in ALLOWED[verdict]:
                self.fail("C10", "accepted-invalid", "C10/%s/accepted-invalid:%s" % (key, verdict),
                          "%s must be rejected (%s) but was accepted" % (desc, verdict), diverged=True)
            if oname not in ALLOWED[verdict]:
                self.fail("C10", "wrong-exception", "C10/%s/wrong-exception:%s" % (key, oname),
                          "%s must be rejected (%s) with one of %s but raised %s: %s" %
                          (desc, verdict, ALLOWED[verdict], oname, outcome), diverged=True)

    # ---- scalar-like members
    def _setter(self, obj, name):
        return lambda v: setattr(obj, name, v)

    def op_set_valid(self, tg, a):
        m, obj, ref = tg.m, tg.pobj, tg.pref
        if m.is_bytes:
            v = gv.bytes_valid(m, a[0])
            return ("%s = %r" % (tg.desc, v), lambda: setattr(obj, m.name, v),
                    lambda: ref.__setitem__(m.name, mm.check_bytes(m, v)), "set/" + m.kind)
        v = gv.scalar_valid(m.type, a[0])
        return ("%s = %r" % (tg.desc, v), lambda: setattr(obj, m.name, v),
                lambda: ref.__setitem__(m.name, mm.check_scalar(m.type, v)), "set/" + m.kind)

    def op_set_invalid(self, tg, a):
        m, obj, ref = tg.m, tg.pobj, tg.pref
        if m.is_bytes:
            v = gv.bytes_invalid(m, a[0])
            return ("%s = %r" % (tg.desc, v), lambda: setattr(obj, m.name, v),
                    lambda: ref.__setitem__(m.name, mm.check_bytes(m, v)), "set-invalid/" + m.kind)
        v = gv.scalar_invalid(m.type, a[0])
        if m.opt and v is None:
            v = "x" if m.type.cat != "enum" else "nope"
        return ("%s = %r" % (tg.desc, v), lambda: setattr(obj, m.name, v),
                lambda: ref.__setitem__(m.name, mm.check_scalar(m.type, v)), "set-invalid/" + m.kind + _vkey(v))

    def op_set_none(self, tg, a):
        m, obj, ref = tg.m, tg.pobj, tg.pref
        return ("%s = None" % tg.desc, lambda: setattr(obj, m.name, None),
                lambda: ref.__setitem__(m.name, None), "clear/" + m.kind)

    def op_read(self, tg, a):
        m, obj, ref = tg.m, tg.pobj, tg.pref

        def rd():
            getattr(obj, m.name)
        return ("read %s" % tg.desc, rd, lambda: None, "read/" + m.kind)

    def op_sizer_read(self, tg, a):
        m, obj = tg.m, tg.pobj

        def rf():
            raise Reject("attr")
        return ("read %s" % tg.desc, lambda: getattr(obj, m.name), rf, "read/sizer")

    def op_sizer_write(self, tg, a):
        m, obj = tg.m, tg.pobj

        def rf():
            raise Reject("attr")
        return ("%s = 1" % tg.desc, lambda: setattr(obj, m.name, 1), rf, "write/sizer")

    # ---- optional composite
    def op_opt_enable(self, tg, a):
        m, obj, ref = tg.m, tg.pobj, tg.pref
        if ref[m.name] is not None:
            if a[0] % 3 == 0:
                return self.op_read(tg, a)
            # '= True' on a present optional: the plain model of "enable" is "holds the default value"
            return ("%s = True (present)" % tg.desc, lambda: setattr(obj, m.name, True),
                    lambda: ref.__setitem__(m.name, mm.default_value(m.type)), "re-enable/optional")
        return ("%s = True" % tg.desc, lambda: setattr(obj, m.name, True),
                lambda: ref.__setitem__(m.name, mm.default_value(m.type)), "enable/optional")

    def op_opt_invalid(self, tg, a):
        m, obj, ref = tg.m, tg.pobj, tg.pref
        v = [5, "x", 0, [True], 1.0][a[0] % 5]

        def rf():
            raise Reject("value")
        return ("%s = %r" % (tg.desc, v), lambda: setattr(obj, m.name, v), rf, "set-invalid/optional-composite")

    def op_assign_reject(self, tg, a):
        m, obj = tg.m, tg.pobj
        v = [5, None, [1], "x"][a[0] % 4]
        if a[0] % 5 == 4 and m.type.cat in ("struct", "union"):
            v = self.world.cls(m.type.name)()

        def rf():
            raise Reject("value")
        return ("%s = %s" % (tg.desc, type(v).__name__), lambda: setattr(obj, m.name, v), rf,
                "assign/" + m.kind)

    # ---- union
    def op_disc_valid(self, tg, a):
        t, obj, ref = tg.ptype, tg.pobj, tg.pref
        name, at, disc = t.arms[a[0] % len(t.arms)]
        v = name if a[1] % 2 else disc

        def rf():
            if ref["@arm"] != name:
                ref["@arm"] = name
                ref["v"] = mm.default_value(at)
        if ref["@arm"] != name:
            self.probe("union_switch")
        return ("%s = %r" % (tg.desc, v), lambda: setattr(obj, "discriminator", v), rf, "discriminator/set")

    def op_disc_invalid(self, tg, a):
        t, obj = tg.ptype, tg.pobj
        used = set(d for _, _, d in t.arms)
        bad = 0
        while bad in used:
            bad += 1
        v = [bad, "nope", None, -1, b"a1"][a[0] % 5]
        if type(v) is int and v in used:
            v = "nope"

        def rf():
            raise Reject("value")
        return ("%s = %r" % (tg.desc, v), lambda: setattr(obj, "discriminator", v), rf, "discriminator/set-invalid")

    def op_disc_read(self, tg, a):
        obj = tg.pobj
        return ("read %s" % tg.desc, lambda: obj.discriminator, lambda: None, "discriminator/read")

    def op_arm_set(self, tg, a):
        name, at, disc = tg.arm
        obj, ref = tg.pobj, tg.pref
        if at.cat in ("struct", "union"):
            v = 5

            def rf():
                raise Reject("value")
            return ("%s = 5" % tg.desc, lambda: setattr(obj, name, v), rf, "assign/union-arm-composite")
        v = gv.scalar_valid(at, a[0])
        return ("%s = %r" % (tg.desc, v), lambda: setattr(obj, name, v),
                lambda: ref.__setitem__("v", mm.check_scalar(at, v)), "set/union-arm")

    def op_arm_set_invalid(self, tg, a):
        name, at, disc = tg.arm
        obj, ref = tg.pobj, tg.pref
        if at.cat in ("struct", "union"):
            return self.op_arm_set(tg, a)
        v = gv.scalar_invalid(at, a[0])
        return ("%s = %r" % (tg.desc, v), lambda: setattr(obj, name, v),
                lambda: ref.__setitem__("v", mm.check_scalar(at, v)), "set-invalid/union-arm" + _vkey(v))

    def op_arm_read(self, tg, a):
        name = tg.arm[0]
        obj = tg.pobj
        return ("read %s" % tg.desc, lambda: getattr(obj, name), lambda: None, "read/union-arm")

    def op_dead_read(self, tg, a):
        name = tg.arm[0]
        obj = tg.pobj

        def rf():
            raise Reject("value")
        return ("read %s (not discriminated)" % tg.desc, lambda: getattr(obj, name), rf, "read/dead-arm")

    def op_dead_write(self, tg, a):
        name, at, _ = tg.arm
        obj = tg.pobj
        v = gv.scalar_valid(at, a[0]) if at.cat in ("scalar", "enum") else 5

        def rf():
            raise Reject("value")
        return ("%s = %r (not discriminated)" % (tg.desc, v), lambda: setattr(obj, name, v), rf, "write/dead-arm")

    # ---- scalar arrays
    def _elems(self, m, a, n, valid=True):
        out = []
        for i in range(n):
            out.append(gv.scalar_valid(m.type, a + i * 3))
        return out

    def _index(self, lst, a, style):
        """style 0: valid (also negative), 1: one past the end, 2: far negative, 3: non-int"""
        n = len(lst)
        if style == 0 and n:
            i = a % n
            return i - n if (a // n) % 3 == 0 else i
        if style == 1 or (style == 0 and not n):
            return n
        if style == 2:
            return -n - 1
        return "x"

    def op_arr_append(self, tg, a):
        m, ref = tg.m, tg.pref
        arr = getattr(tg.pobj, m.name)
        v = gv.scalar_valid(m.type, a[0])
        if m.arr == "limited" and len(ref[m.name]) >= m.n:
            self.probe("limited_full_append")
        return ("%s.append(%r)" % (tg.desc, v), lambda: arr.append(v),
                lambda: mm.arr_append(m, ref[m.name], v), "append/" + m.kind)

    def op_arr_append_invalid(self, tg, a):
        m, ref = tg.m, tg.pref
        arr = getattr(tg.pobj, m.name)
        v = gv.scalar_invalid(m.type, a[0])
        return ("%s.append(%r)" % (tg.desc, v), lambda: arr.append(v),
                lambda: mm.arr_append(m, ref[m.name], v), "append-invalid/" + m.kind + _vkey(v))

    def op_arr_confused(self, tg, a):
        m = tg.m
        arr = getattr(tg.pobj, m.name)
        v = gv.scalar_valid(m.type, a[0])
        k = a[1] % 7
        kind = "confused"
        if k == 0:
            desc, do = "%s.extend(5)" % tg.desc, lambda: arr.extend(5)
        elif k == 1:
            desc, do = "%s[:] = 5" % tg.desc, lambda: _operator.setitem(arr, slice(None), 5)
        elif k == 2:
            desc, do = "%s.insert('a', %r)" % (tg.desc, v), lambda: arr.insert("a", v)
        elif k == 3:
            desc, do = "%s['a'] = %r" % (tg.desc, v), lambda: _operator.setitem(arr, "a", v)
        elif k == 4:
            desc, do, kind = "%s.extend(None)" % tg.desc, lambda: arr.extend(None), "confused-or-noop"
        elif k == 5:
            desc, do, kind = "%s.extend(0)" % tg.desc, lambda: arr.extend(0), "confused-or-noop"
        else:
            desc, do = "%s.extend(object())" % tg.desc, lambda: arr.extend(object())

        def rf():
            raise Reject(kind)
        return (desc, do, rf, "confused/" + m.kind)

    def op_carr_confused(self, tg, a):
        m = tg.m
        arr = getattr(tg.pobj, m.name)
        k = a[1] % 4
        if k == 0:
            desc, do = "%s.extend(1)" % tg.desc, lambda: arr.extend(1)
        elif k == 1:
            desc, do = "%s.extend([1])" % tg.desc, lambda: arr.extend([1])
        elif k == 2:
            desc, do = "%s.extend(['x', None])" % tg.desc, lambda: arr.extend(["x", None])
        kind = "confused"
        if k == 3:
            desc, do, kind = "%s[:] = 1" % tg.desc, lambda: _operator.setitem(arr, slice(None), 1), "confused-item"

        def rf():
            raise Reject(kind)
        return (desc, do, rf, "confused/" + m.kind)

    def op_arr_insert(self, tg, a):
        m, ref = tg.m, tg.pref
        arr = getattr(tg.pobj, m.name)
        v = gv.scalar_valid(m.type, a[0]) if a[2] % 5 else gv.scalar_invalid(m.type, a[0])
        n = len(ref[m.name])
        i = [a[1] % (n + 1), n + 3, -(a[1] % (n + 1)), -n - 3][a[3] % 4]
        return ("%s.insert(%r, %r)" % (tg.desc, i, v), lambda: arr.insert(i, v),
                lambda: mm.arr_insert(m, ref[m.name], i, v), "insert/" + m.kind)

    def op_arr_extend(self, tg, a):
        m, ref = tg.m, tg.pref
        arr = getattr(tg.pobj, m.name)
        n = a[1] % 5
        if a[3] % 40 == 39 and m.type.cat == "scalar" and not m.type.is_float and m.arr != "limited":
            n = [255, 256, 300][a[1] % 3]
            self.probe("long_extend")
        vs = self._elems(m, a[0], n)
        style = a[2] % 8
        key = "extend/" + m.kind
        if style == 5 and n:
            vs[a[3] % n] = gv.scalar_invalid(m.type, a[3])
            key = "extend-invalid-elem/" + m.kind
            if a[3] % n:
                self.probe("extend_bad_elem_after_good_prefix")
        ref_vs = list(vs)
        if style == 6:
            arg = tuple(vs)
            shown = "tuple"
        elif style == 7 and n:
            k = a[3] % (n + 1)
            arg = FaultingIterable(vs, k)
            shown = "faulting@%d" % k
            key = "extend-faulting/" + m.kind

            def rf():
                raise Reject("fault")
            return ("%s.extend(<%s %r>)" % (tg.desc, shown, vs), lambda: arr.extend(arg), rf, key)
        else:
            arg = list(vs)
            shown = "list"
        return ("%s.extend(<%s %r>)" % (tg.desc, shown, vs if n < 9 else "%d elems" % n), lambda: arr.extend(arg),
                lambda: mm.arr_extend(m, ref[m.name], ref_vs), key)

    def op_arr_extend_gen(self, tg, a):
        """a one-shot generator as the argument of extend (a documented 'iterable')"""
        m, ref = tg.m, tg.pref
        arr = getattr(tg.pobj, m.name)
        vs = self._elems(m, a[0], a[1] % 4)
        return ("%s.extend(<generator %r>)" % (tg.desc, vs), lambda: arr.extend(x for x in vs),
                lambda: mm.arr_extend(m, ref[m.name], list(vs)), "extend-generator/" + m.kind)

    def op_arr_setitem(self, tg, a):
        m, ref = tg.m, tg.pref
        arr = getattr(tg.pobj, m.name)
        style = [0, 0, 0, 1, 2][a[2] % 5]
        i = self._index(ref[m.name], a[1], style)
        v = gv.scalar_valid(m.type, a[0]) if a[3] % 6 else gv.scalar_invalid(m.type, a[0])
        key = "setitem/%s" % m.kind if style == 0 else "setitem-bad-index/%s" % m.kind
        return ("%s[%r] = %r" % (tg.desc, i, v), lambda: arr.__setitem__(i, v),
                lambda: mm.arr_setitem(m, ref[m.name], i, v), key)

    def _slice(self, n, a, allow_step):
        lo = [None, a[1] % (n + 2), -(a[1] % (n + 2))][a[1] % 3]
        hi = [None, a[2] % (n + 2), -(a[2] % (n + 2)), n + 5][a[2] % 4]
        step = None
        if allow_step and a[3] % 4 == 0:
            step = [2, -1, 3, -2, 1, 1][(a[3] // 4) % 6]
        return slice(lo, hi, step)

    def op_arr_setslice(self, tg, a):
        m, ref = tg.m, tg.pref
        arr = getattr(tg.pobj, m.name)
        cur = ref[m.name]
        sl = self._slice(len(cur), a, True)
        tgt_len = len(cur[sl])
        mode = a[0] % 6
        if sl.step is not None:
            n = tgt_len if mode else tgt_len + 1
            self.probe("slice_with_step")
        elif m.arr == "fixed":
            n = tgt_len if mode else tgt_len + 1 + a[0] % 2
        else:
            n = [tgt_len, tgt_len + 1, max(0, tgt_len - 1), a[0] % 6, 0, tgt_len + 2][mode]
        vs = self._elems(m, a[0], n)
        key = "setslice/" + m.kind + ("/step" if sl.step is not None else "")
        if a[3] % 7 == 6 and n:
            vs[a[0] % n] = gv.scalar_invalid(m.type, a[1])
            key = "setslice-invalid-elem/" + m.kind
        ref_vs = list(vs)
        arg = list(vs) if a[3] % 3 else tuple(vs)
        return ("%s[%s] = %r" % (tg.desc, _sl(sl), arg), lambda: arr.__setitem__(sl, arg),
                lambda: mm.arr_setslice(m, cur, sl, ref_vs), key)

    def op_arr_delitem(self, tg, a):
        m, ref = tg.m, tg.pref
        arr = getattr(tg.pobj, m.name)
        style = [0, 0, 0, 1, 2][a[2] % 5]
        i = self._index(ref[m.name], a[1], style)
        key = "delitem/%s" % m.kind if style == 0 else "delitem-bad-index/%s" % m.kind
        return ("del %s[%r]" % (tg.desc, i), lambda: arr.__delitem__(i),
                lambda: mm.arr_delitem(m, ref[m.name], i), key)

    def op_arr_delslice(self, tg, a):
        m, ref = tg.m, tg.pref
        arr = getattr(tg.pobj, m.name)
        sl = self._slice(len(ref[m.name]), a, True)
        return ("del %s[%s]" % (tg.desc, _sl(sl)), lambda: arr.__delitem__(sl),
                lambda: mm.arr_delslice(m, ref[m.name], sl), "delslice/" + m.kind)

    def op_arr_remove(self, tg, a):
        m, ref = tg.m, tg.pref
        arr = getattr(tg.pobj, m.name)
        cur = ref[m.name]
        if cur and a[1] % 3:
            v = cur[a[0] % len(cur)]
            key = "remove/" + m.kind
        else:
            v = gv.stored(m.type, gv.scalar_valid(m.type, a[0]))
            key = "remove-any/" + m.kind
        return ("%s.remove(%r)" % (tg.desc, v), lambda: arr.remove(v),
                lambda: mm.arr_remove(m, cur, v), key)

    def op_arr_read(self, tg, a):
        m = tg.m
        obj = tg.pobj
        cur = tg.pref[m.name]
        scalar = m.type.cat in ("scalar", "enum")
        n = len(cur)
        idx = self._index(cur, a[1], 0) if n else None
        sl = self._slice(n, a, True)
        want_item = cur[idx] if n and scalar else None
        want_slice = list(cur[sl]) if scalar else None
        want_len = len(cur[sl])

        def rd():
            x = getattr(obj, m.name)
            if len(x) != n:
                raise pyapi.ObserveMismatch("len(%s) = %d, model %d" % (tg.desc, len(x), n))
            for _ in x:
                pass
            if n and scalar and x[idx] != want_item:
                raise pyapi.ObserveMismatch("%s[%d] reads %r, model %r" % (tg.desc, idx, x[idx], want_item))
            got = x[sl]
            if len(got) != want_len or (scalar and [pyapi.norm_scalar(m.type, v, []) for v in got] != want_slice):
                raise pyapi.ObserveMismatch("%s[%s] reads %r, model %r" % (tg.desc, _sl(sl), list(got), want_slice))
        return ("read %s, [%r], [%s]" % (tg.desc, idx, _sl(sl)), rd, lambda: None, "read/" + m.kind)

    # ---- composite arrays
    def _kwargs(self, et, a, bad):
        """keyword arguments for add(): -> (kwargs, apply(elem) that mirrors them on a reference element or raises
        Reject, rejected flag). Members: scalars and enums, bytes, scalar arrays (add() assigns attr[:] = value),
        optional scalars; for unions the discriminator (and then the arm)."""
        kw = {}
        plan = []          # (name, kind, member / arm)
        if et.cat == "union":
            if a[1] % 3 == 0:
                return {}, (lambda elem: None), False
            name, at, disc = et.arms[a[2] % len(et.arms)]
            kw["discriminator"] = name if a[0] % 2 else disc
            val = None
            if at.cat in ("scalar", "enum") and a[1] % 3 == 2:
                val = gv.scalar_invalid(at, a[3]) if bad == 1 else gv.scalar_valid(at, a[0])
                kw[name] = val
            elif bad == 1:
                kw["discriminator"] = "nope"
            if bad == 2:
                kw["nope"] = 1

            def apply(elem):
                if kw["discriminator"] == "nope":
                    raise Reject("value")
                if elem["@arm"] != name:
                    elem["@arm"], elem["v"] = name, mm.default_value(at)
                if name in kw:
                    elem["v"] = mm.check_scalar(at, kw[name])
                if "nope" in kw:
                    raise Reject("attr")
            return kw, apply, (bad == 1) or ("attr" if bad == 2 else False)
        cands = [m for m in et.members if not m.sizes and
                 ((not m.arr and m.type.cat in ("scalar", "enum")) or m.is_bytes or
                  (m.arr and m.type.cat in ("scalar", "enum")))]
        n = a[1] % 3
        chosen = []
        for j in range(min(n, len(cands))):
            m = cands[(a[2] + j) % len(cands)]
            if m.name in kw:
                continue
            if m.is_bytes:
                kw[m.name] = gv.bytes_valid(m, a[0] + j)
            elif m.arr:
                ln = m.n if m.arr == "fixed" else (a[0] + j) % ((m.n if m.arr == "limited" else 3) + 1)
                kw[m.name] = [gv.scalar_valid(m.type, a[0] + j + q) for q in range(ln)]
            else:
                kw[m.name] = gv.scalar_valid(m.type, a[0] + j)
            chosen.append(m)
        rejected = False
        if bad == 1 and chosen:
            m = chosen[-1]      # the *last* keyword gets an invalid value: everything before it is valid
            if m.is_bytes:
                kw[m.name] = gv.bytes_invalid(m, a[3])
            elif m.arr:
                if m.arr in ("fixed", "limited") and a[3] % 2:
                    kw[m.name] = [gv.scalar_valid(m.type, q) for q in range(m.n + 1)]
                else:
                    kw[m.name] = list(kw[m.name][:1]) + [gv.scalar_invalid(m.type, a[3])] if m.arr != "fixed" else \
                        [gv.scalar_invalid(m.type, a[3])] * m.n
            else:
                v = gv.scalar_invalid(m.type, a[3])
                if m.opt and v is None:
                    v = "x" if m.type.cat != "enum" else "nope"
                kw[m.name] = v
            rejected = True
        elif bad == 2:
            kw["nope"] = 1
            rejected = "attr"

        def apply(elem):
            for m in chosen:
                v = kw[m.name]
                if m.is_bytes:
                    elem[m.name] = mm.check_bytes(m, v)
                elif m.arr:
                    mm.arr_setslice(m, elem[m.name], slice(None, None), list(v))
                else:
                    elem[m.name] = mm.check_scalar(m.type, v)
            if "nope" in kw:
                raise Reject("attr")
        return kw, apply, rejected

    def op_carr_add(self, tg, a):
        m, ref = tg.m, tg.pref
        arr = getattr(tg.pobj, m.name)
        bad = [0, 0, 0, 1, 2][a[3] % 5]
        kw, apply_kw, rejected = self._kwargs(m.type, a, bad)
        if bad and not rejected:
            bad = 0

        def rf():
            if m.arr == "limited" and len(ref[m.name]) >= m.n:
                raise Reject("value", "limit")
            elem = mm.default_value(m.type)
            apply_kw(elem)
            ref[m.name].append(elem)
        key = "add/" + m.kind + ["", "/invalid-kw-value", "/unknown-kw"][bad]
        if m.arr == "limited" and len(ref[m.name]) >= m.n:
            self.probe("limited_full_add")
            if rejected == "attr":
                return None   # two reasons to reject: which exception wins is not specified
        if any(isinstance(v, list) for v in kw.values()):
            self.probe("add_with_array_keyword")
        return ("%s.add(%s)" % (tg.desc, ", ".join("%s=%r" % kv for kv in kw.items())), lambda: arr.add(**kw), rf, key)

    def op_carr_extend(self, tg, a):
        m, ref = tg.m, tg.pref
        mi_other = 1 - tg.mi
        arr = getattr(tg.pobj, m.name)
        cls = self.world.cls(m.type.name)
        srcs_rt, srcs_ref, shown = [], [], []
        n = a[1] % 4
        # candidate sources: elements of the same-named array of the other message (when this array sits directly
        # in the root), elements of this array itself, fresh elements
        pool = []
        cur = ref[m.name]
        for idx in range(len(cur)):
            pool.append(("self[%d]" % idx, arr[idx], cur[idx]))
        if tg.ptype is self.T:
            oref = self.ref[mi_other][m.name]
            oarr = getattr(self.msg[mi_other], m.name)
            for idx in range(len(oref)):
                pool.append(("m%d.%s[%d]" % (mi_other, m.name, idx), oarr[idx], oref[idx]))
        for j in range(n):
            if pool and (a[2] + j) % 3:
                nm, o, r = pool[(a[0] + j) % len(pool)]
            else:
                nm, o, r = "fresh", cls(), mm.default_value(m.type)
            srcs_rt.append(o)
            srcs_ref.append(r)
            shown.append(nm)
        style = a[3] % 8
        key = "extend/" + m.kind
        if style == 7 and n:
            arg = (x for x in srcs_rt)
            key = "extend-generator/" + m.kind
        elif style == 6:
            arg = tuple(srcs_rt)
        else:
            arg = list(srcs_rt)
        if srcs_rt and any(s != "fresh" for s in shown):
            self.probe("extend_composite_from_live_elements")
            self.copied = True
            self.last_comp_extend = True

        def rf():
            if m.arr == "limited" and len(cur) + len(srcs_ref) > m.n:
                raise Reject("value", "limit")
            cur.extend(mm.clone(r) for r in srcs_ref)
        return ("%s.extend([%s])" % (tg.desc, ", ".join(shown)), lambda: arr.extend(arg), rf, key)

    def op_carr_delitem(self, tg, a):
        return self.op_arr_delitem(tg, a)

    def op_carr_delslice(self, tg, a):
        return self.op_arr_delslice(tg, a)

    # ---- copy_from
    def op_copy(self, op):
        mi = op["m"]
        t, dref, dobj, ddesc = self.resolve_node(mi, op["path"])
        mode = op["copy"]
        src = None
        if mode == 1:
            # same position in the other message, else whole message
            t2, sref, sobj, sdesc = self.resolve_node(1 - mi, op["path"])
            if t2 is t:
                src = (sref, sobj, sdesc)
        elif mode == 2:
            t2, sref, sobj, sdesc = self.resolve_node((mi + op["k"]) % 2, [x for x in op["a"]])
            if t2 is t and sobj is not dobj:
                src = (sref, sobj, sdesc)
        elif mode == 3 and op["k"] % 3 == 0:
            src = (dref, dobj, ddesc)          # x.copy_from(x): nothing may change
        if src is None:
            t, dref, dobj, ddesc = self.T, self.ref[mi], self.msg[mi], "m%d" % mi
            src = (self.ref[1 - mi], self.msg[1 - mi], "m%d" % (1 - mi))
        sref, sobj, sdesc = src
        if _has_present_optional_composite(t, sref):
            self.probe("copy_src_present_optional_composite")
        if _has_limited_composite_array(t, sref):
            self.probe("copy_src_limited_composite_array")

        def rf():
            if sref is dref:
                return
            new = mm.clone(sref)
            dref.clear()
            dref.update(new)
        desc = "%s.copy_from(%s)" % (ddesc, sdesc)
        self.last_desc, self.last_key = desc, "copy_from"
        self.count("copies")
        self.copied = True
        self.apply_c11(desc, lambda: dobj.copy_from(sobj), rf)

    def apply_c11(self, desc, run_rt, run_ref):
        run_ref()
        try:
            run_rt()
        except Exception as e:
            self.note("%s -> raised %s" % (desc, type(e).__name__))
            self.fail("C11", "copy-raised", "C11/copy_from/raised:%s/%s" % (type(e).__name__, _msgkey(e)),
                      "%s raised %s: %s" % (desc, type(e).__name__, e), diverged=True)
        self.note("%s -> ok" % desc)
        self.count("ops")

    # ---- main loop
    def run(self):
        self.last_desc, self.last_key = "setup", "setup"
        self.last_mi, self.copied, self.last_comp_extend = 0, False, False
        ops = self.plan["ops"]
        try:
            self.setup()
            self.step = -1
            self.scheduled_observe(0, last=not ops)
            for i, op in enumerate(ops):
                self.step = i
                self.last_mi = op["m"]
                self.last_comp_extend = False
                try:
                    self.run_op(op)
                except pyapi.ObserveMismatch as e:
                    self.fail("C10", "state", "C10/state-mismatch/resolve", str(e))
                except (IndexError, AttributeError, TypeError, KeyError) as e:
                    if isinstance(e, Stop):
                        raise
                    # the runtime object no longer has the shape the model has: let the observation say how
                    self.note("resolve diverged: %s %s" % (type(e).__name__, e))
                    self.observe_msg(0)
                    self.observe_msg(1)
                    raise
                self.scheduled_observe(op["m"], last=(i == len(ops) - 1))
        except Stop as s:
            v = s.violation
            if v.prop not in self.props:
                self.count("ended_by_unarmed:" + v.prop)
                self.unarmed_end = v
                return None
            return v
        self.final = True
        return None


def _has_present_optional_composite(t, tree):
    if t.cat != "struct":
        return False
    for m in t.members:
        if m.opt and m.type.cat in ("struct", "union") and tree[m.name] is not None:
            return True
    return False


def _has_limited_composite_array(t, tree):
    if t.cat != "struct":
        return False
    for m in t.members:
        if m.arr == "limited" and m.type.cat in ("struct", "union") and not m.is_bytes and tree[m.name]:
            return True
    return False


def _sl(s):
    f = lambda x: "" if x is None else str(x)
    return "%s:%s" % (f(s.start), f(s.stop)) + ("" if s.step is None else ":%d" % s.step)


def _vkey(v):
    return "/" + type(v).__name__


def _msgkey(e):
    """stable short key of an exception message: words only, digits and quoted parts removed"""
    import re
    s = re.sub(r"'[^']*'|\"[^\"]*\"|\d+", "", str(e))
    s = re.sub(r"[^A-Za-z ]+", " ", s)
    return "-".join(s.split()[:5])


def _first_diff_line(a, b):
    la, lb = a.split("\n"), b.split("\n")
    for i, (x, y) in enumerate(zip(la, lb)):
        if x != y and not (x.endswith(text.FLOAT_MASK)):
            kind = "bytes" if ": '" in x or ': "' in y or ": b" in y else ("block" if x.endswith("{") else "scalar")
            return kind
    return "line-count"


def _first_diff_range(want, got, wmap):
    n = min(len(want), len(got))
    pos = next((i for i in range(n) if want[i] != got[i]), n)
    for r in wmap:
        if r[0] <= pos < r[1]:
            return r
    return (pos, pos, "end", 0, "/end", None)


def _path_kind(T, path, kind):
    """class key component: what kind of range the first difference lies in (names stripped)"""
    tail = path.rsplit("/", 1)[1] if "/" in path else ""
    return "%s%s" % (kind, "-" + tail if tail else "")


DISC_OPS = ["disc_valid", "disc_valid", "disc_valid", "disc_invalid", "disc_read"]
ARM_OPS_LIVE = ["arm_set", "arm_set", "arm_set_invalid", "arm_read"]
ARM_OPS_DEAD = ["dead_read", "dead_write", "disc_via_arm"]


def ops_for_member(m):
    comp = m.type.cat in ("struct", "union")
    if m.sizes:
        return ["sizer_read", "sizer_write"]
    if m.is_bytes:
        return ["set_valid", "set_valid", "set_valid", "set_invalid", "read"]
    if m.arr == "fixed":
        if comp:
            return ["assign_reject", "arr_read"]
        return ["arr_setitem", "arr_setitem", "arr_setslice", "arr_setslice", "assign_reject", "arr_read"]
    if m.arr:
        if comp:
            return ["carr_add", "carr_add", "carr_add", "carr_extend", "carr_extend", "carr_delitem", "carr_delslice",
                    "assign_reject", "arr_read", "carr_confused"]
        return ["arr_append", "arr_append", "arr_append_invalid", "arr_insert", "arr_extend", "arr_extend",
                "arr_extend_gen", "arr_setitem", "arr_setslice", "arr_setslice", "arr_delitem", "arr_delslice",
                "arr_remove", "assign_reject", "arr_read", "arr_append", "arr_confused"]
    if m.opt:
        if comp:
            return ["opt_enable", "opt_enable", "set_none", "opt_invalid", "read"]
        return ["set_valid", "set_valid", "set_none", "set_invalid", "read"]
    if comp:
        return ["assign_reject", "read"]
    return ["set_valid", "set_valid", "set_valid", "set_invalid", "read"]


def _op_disc_via_arm(self, tg, a):
    """switch the union to the arm that was addressed (so histories reach every arm quickly)"""
    name, at, disc = tg.arm
    obj, ref = tg.pobj, tg.pref
    v = name if a[1] % 2 else disc

    def rf():
        ref["@arm"] = name
        ref["v"] = mm.default_value(at)
    self.probe("union_switch")
    return ("%s.discriminator = %r" % (tg.desc.rsplit(".", 1)[0], v), lambda: setattr(obj, "discriminator", v), rf,
            "discriminator/set")


HistRun.op_disc_via_arm = _op_disc_via_arm


# ---------------------------------------------------------------------------- simulation interface (sim/runner.py)

LIST_FIELDS = ["ops"]


def _is_nontrivial(run):
    sch = run.plan["schema"]
    only_scalars = len(sch["defs"]) == 1 and all(
        m["arr"] is None and not m["opt"] for m in sch["defs"][0].get("members", []))
    return not only_scalars and run.stats.get("accepted", 0) + run.stats.get("copies", 0) > 0


def execute(plan, armed, localise=True):
    run = HistRun(plan, armed)
    v = run.run()
    if v is not None and localise and v.tag in ("state", "observe") and plan["obs"] != 0:
        # sparse observation found a divergence: re-execute the same plan observing everything after every step to
        # attribute it to the operation that caused it (pure function of the plan; falls back to the original
        # verdict when eager observation masks the defect)
        eager = dict(plan, obs=0)
        run2 = HistRun(eager, armed)
        v2 = run2.run()
        if v2 is not None:
            v2.message += " [localised by eager re-execution; sparse schedule saw it at step %d]" % v.step
            v, run = v2, run2
    shape = gs.shape_digest(plan["schema"])
    res = {
        "violation": v.as_dict() if v is not None else None,
        "soft": [s.as_dict() for s in run.soft.values()],
        "stats": run.stats, "probes": run.probes,
        "faults": dict(("rejected-operation:" + k.split(":", 1)[1], v) for k, v in run.stats.items()
                       if k.startswith("rejected:")),
        "states": set("%s:%s" % (shape, s) for s in run.states) if _is_nontrivial(run) else set(),
        "digest": run.log.hexdigest(), "trace": run.trace, "steps": run.stats.get("ops", 0),
        "nontrivial": _is_nontrivial(run),
        "sample": {"schema": getattr(run, "text", ""), "message_type": getattr(run, "tname", None),
                   "history": run.trace[:12]},
    }
    return res


def _refs(d):
    if d["k"] == "typedef":
        return {d["type"]}
    if d["k"] == "union":
        return set(a["type"] for a in d["arms"]) | set(a["dtext"] for a in d["arms"] if a.get("dtext"))
    if d["k"] == "enum":
        return set(m[2] for m in d["members"] if len(m) > 2)
    if d["k"] == "struct":
        out = set(m["type"] for m in d["members"])
        out |= set(m["ntext"] for m in d["members"] if m.get("ntext"))
        return out
    if d["k"] == "const":
        return set(d["expr"].replace("(", " ").replace(")", " ").split())
    return set()


def simplify_plan(plan, same, max_exec=300):
    """plan-level structural reduction: unused definitions, struct members, union arms, seeded values"""
    import copy
    execs = [0]

    def attempt(cand):
        if execs[0] >= max_exec:
            return False
        execs[0] += 1
        try:
            return same(cand)
        except Exception:
            return False

    best = plan
    for key, val in (("seed_values", [0, 0]), ("value_tape", [])):
        if best.get(key) and best[key] != val:
            cand = copy.deepcopy(best)
            cand[key] = val
            if attempt(cand):
                best = cand
    changed = True
    while changed and execs[0] < max_exec:
        changed = False
        defs = best["schema"]["defs"]
        # drop definitions nobody refers to
        for i in range(len(defs) - 1, -1, -1):
            d = defs[i]
            if d["name"] == best["msg_name"]:
                continue
            names = {d["name"]} | set(m[0] for m in d.get("members", [])) if d["k"] == "enum" else {d["name"]}
            if any(names & _refs(o) for o in defs if o is not d):
                continue
            cand = copy.deepcopy(best)
            del cand["schema"]["defs"][i]
            if attempt(cand):
                best, changed = cand, True
                defs = best["schema"]["defs"]
        # drop struct members / union arms
        for di in range(len(defs) - 1, -1, -1):
            d = defs[di]
            key = "members" if d["k"] == "struct" else "arms" if d["k"] == "union" else None
            if not key:
                continue
            for mi in range(len(d[key]) - 1, -1, -1):
                if len(best["schema"]["defs"][di][key]) <= 1:
                    break
                m = best["schema"]["defs"][di][key][mi]
                if key == "members" and any(o.get("sizer") == m["name"] for o in best["schema"]["defs"][di][key]):
                    continue
                cand = copy.deepcopy(best)
                del cand["schema"]["defs"][di][key][mi]
                if attempt(cand):
                    best, changed = cand, True
        # simpler array forms / sizes
        for di, d in enumerate(best["schema"]["defs"]):
            if d["k"] != "struct":
                continue
            for mi, m in enumerate(d["members"]):
                if m.get("n", 1) > 1:
                    cand = copy.deepcopy(best)
                    cm = cand["schema"]["defs"][di]["members"][mi]
                    cm["n"], cm["ntext"] = 1, "1"
                    if attempt(cand):
                        best, changed = cand, True
    return best
