"""S-ORDER (C15, C04): the 'schedule' is the order in which definitions reach the compiler.

One run = one acyclic definition set rendered as isar XML in k permutations of its elements. The real isar
parser, topological_sort, cross-referencing, size evaluation and Python generator run on each of them.
"""
import hashlib

from refmodel import types as rt
from gen import schema as gs, render
from sim import world as simworld, fs as simfs
from sim.clock import StepClock, SimTimeout
from .pymsg import Violation, _msgkey
from . import layout_oracle

STEP_A, STEP_B = 400000, 4000        # line events: A + B * characters of input (about 40x a normal compile)

ISAR_FEATURES_OFF = ("arr_dynamic", "arr_greedy", "bytes")


def make_plan(tape, prop):
    feats = gs.draw_features(tape)
    for f in ISAR_FEATURES_OFF:
        feats[f] = False
    feats["_forbid"] = ("arr_dynamic", "arr_greedy", "bytes")
    # order matters most when there are many cross-category references
    for f in ("consts", "enums", "typedefs", "unions", "nested", "const_sizes"):
        if tape.chance(1, 2):
            feats[f] = True
    schema = gs.gen_schema(tape, feats=feats)
    n = len(schema["defs"])
    perms = []
    modes = []
    nperm = 3 + tape.draw(6)
    for k in range(nperm):
        mode = tape.draw(6)
        if mode == 0:
            p = list(range(n))[::-1]           # every dependency as late as possible
        elif mode == 1:
            p = list(range(n))
            if n > 1:
                i = tape.draw(n)
                p.append(p.pop(i))             # one definition moved to the very end
        elif mode == 2 and n > 1:
            p = list(range(n))[::-1]
            i, j = tape.draw(n), tape.draw(n)
            p[i], p[j] = p[j], p[i]
        else:
            keys = [(tape.draw(1 << 16), i) for i in range(n)]
            p = [i for _, i in sorted(keys)]
        perms.append(p)
        modes.append(["reverse-dependency-order", "one-definition-moved-last", "reverse-with-swap"][mode] if mode < 3 and
                     (mode != 2 or n > 1) else "random-permutation")
    plan = {"sim": "order", "prop": prop, "schema": schema, "perms": perms, "modes": modes,
            "compact_exprs": tape.chance(1, 2)}
    # a patch file that changes a member's type after parsing, and with it a dependency edge
    plan["patch"] = [tape.draw(1 << 10), tape.draw(1 << 10), tape.draw(1 << 10)] if tape.chance(1, 6) else None
    # an (unrelated) included file whose name is, two times out of three, the name of a definition of the main file:
    # include nodes and definitions share the sorter's name space
    plan["include"] = None
    if tape.chance(1, 5) and n:
        plan["include"] = "base" if tape.chance(1, 3) else schema["defs"][tape.draw(n)]["name"]
    return plan


def apply_type_patch(schema, code):
    """-> (patched schema (the reference), patch file text) or (schema, None) when no member qualifies.
    A plain scalar member of a struct gets the type of a fixed composite / enum defined *before* the struct."""
    import copy
    defs = schema["defs"]
    cands = []
    for si, d in enumerate(defs):
        if d["k"] != "struct":
            continue
        sizers = set(m.get("sizer") for m in d["members"])
        earlier = [e for e in defs[:si] if e["k"] in ("enum", "union") or
                   (e["k"] == "struct" and all(m["arr"] in (None, "fixed", "limited") for m in e["members"]) and
                    all(_fixed_type(defs, m["type"]) for m in e["members"]))]
        for mi, m in enumerate(d["members"]):
            if m["arr"] is None and not m["opt"] and m["name"] not in sizers and m["type"] in gs.BUILTIN_WIDTH and earlier:
                cands.append((si, mi, earlier))
    if not cands:
        return schema, None
    si, mi, earlier = cands[code[0] % len(cands)]
    target = earlier[code[1] % len(earlier)]
    patched = copy.deepcopy(schema)
    patched["defs"][si]["members"][mi]["type"] = target["name"]
    return patched, "%s type %s %s\n" % (defs[si]["name"], defs[si]["members"][mi]["name"], target["name"])


def _fixed_type(defs, name):
    if name in gs.BUILTIN_WIDTH:
        return True
    d = next((x for x in defs if x["name"] == name), None)
    if d is None:
        return False
    if d["k"] in ("enum", "union"):
        return True
    if d["k"] == "typedef":
        return _fixed_type(defs, d["type"])
    if d["k"] == "struct":
        return all(m["arr"] in (None, "fixed", "limited") and _fixed_type(defs, m["type"]) for m in d["members"])
    return False


def ref_dependencies(schema):
    """name -> set of definition names it needs (computed from the AST, not from model.dependencies())"""
    owner = {}
    for d in schema["defs"]:
        owner[d["name"]] = d["name"]
        if d["k"] == "enum":
            for m in d["members"]:
                owner[m[0]] = d["name"]
    deps = {}
    for d in schema["defs"]:
        used = set()
        if d["k"] == "const":
            for tok in d["expr"].replace("(", " ").replace(")", " ").replace("*", " ").replace("+", " ") \
                    .replace("-", " ").replace("<<", " ").replace(">>", " ").split():
                if tok in owner:
                    used.add(owner[tok])
        elif d["k"] == "typedef":
            if d["type"] in owner:
                used.add(owner[d["type"]])
        elif d["k"] == "enum":
            for m in d["members"]:
                if len(m) > 2 and m[2] in owner:
                    used.add(owner[m[2]])
        elif d["k"] == "union":
            for a in d["arms"]:
                if a["type"] in owner:
                    used.add(owner[a["type"]])
                if a.get("dtext") in owner:
                    used.add(owner[a["dtext"]])
        elif d["k"] == "struct":
            for m in d["members"]:
                if m["type"] in owner:
                    used.add(owner[m["type"]])
                if m.get("ntext") in owner:
                    used.add(owner[m["ntext"]])
        used.discard(d["name"])
        deps[d["name"]] = used
    return deps


class OrderRun(object):
    def __init__(self, plan, armed):
        self.plan = plan
        self.armed = armed
        self.stats = {}
        self.probes = {}
        self.faults = {}
        self.states = set()
        self.log = hashlib.sha1()
        self.trace = []
        self.steps = 0

    def count(self, k, n=1):
        self.stats[k] = self.stats.get(k, 0) + n

    def viol(self, prop, tag, ck, step, msg):
        if prop in self.armed:
            return Violation(prop, tag, ck, step, msg)
        self.count("unarmed:" + prop)
        return None

    def run(self):
        plan = self.plan
        schema = plan["schema"]
        if plan.get("compact_exprs"):
            import copy
            schema = copy.deepcopy(schema)
            for d in schema["defs"]:
                if d["k"] == "const":
                    d["expr"] = d["expr"].replace(" ", "")
        rendered = schema          # what is written to the xml file
        patch_text = None
        if plan.get("patch"):
            patched, patch_text = apply_type_patch(schema, plan["patch"])
            if patch_text:
                schema = patched       # the reference: what the compiler must produce after patching
                self.probes["patched_dependency_edge"] = 1
        R = rt.Resolved(schema)
        deps = ref_dependencies(schema)
        names = [d["name"] for d in schema["defs"]]
        late = max([0] + [len(v) for v in deps.values()])
        layouts = []
        for pi, perm in enumerate(plan["perms"]):
            defs = [rendered["defs"][i] for i in perm if i < len(rendered["defs"])]
            inc = plan.get("include")
            text = render.isar_text(defs, includes=["%s.xml" % inc] if inc else ())
            self.text = text
            fs = simfs.FakeFS("/w")
            fs.mkdir("/w/out")
            fs.put("/w/s.xml", text)
            if inc:
                fs.put("/w/%s.xml" % inc, render.isar_text([{"k": "const", "name": "XINC_K", "expr": "1"}]))
                self.faults["include-named-%s" % ("base" if inc == "base" else "like-a-definition")] = \
                    self.faults.get("include-named-%s" % ("base" if inc == "base" else "like-a-definition"), 0) + 1
            argv = ["--isar", "--python_out", "/w/out"]
            if patch_text:
                fs.put("/w/p.patch", patch_text)
                argv += ["--patch", "/w/p.patch"]
                if pi == 0:
                    self.trace.append("patch: %s" % patch_text.strip())
            clock = StepClock(STEP_A + STEP_B * len(text))
            try:
                with clock:
                    nodes, exc, so, se = simworld.run_prophyc(fs, argv + ["/w/s.xml"])
            except SimTimeout:
                self.steps += clock.steps
                return self.viol("C15", "hang", "C15/sort-step-budget", pi,
                                 "prophyc --isar exceeded %d line events on an acyclic definition set (order %r)" %
                                 (clock.budget, [names[i] for i in perm]))
            self.steps += clock.steps
            self.count("compiles")
            mode = (plan.get("modes") or [])[pi] if pi < len(plan.get("modes") or []) else "minimised"
            self.faults["order:" + mode] = self.faults.get("order:" + mode, 0) + 1
            if patch_text:
                self.faults["patch-changes-dependency"] = self.faults.get("patch-changes-dependency", 0) + 1
            order_desc = " ".join(names[i] for i in perm)
            self.trace.append("order %d: %s" % (pi, order_desc))
            self.log.update(order_desc.encode())
            if exc is not None:
                v = self.viol("C15", "compile-failed", "C15/compile-failed/%s/%s" % (type(exc).__name__, _msgkey(exc)), pi,
                              "prophyc --isar failed on an acyclic definition set in order [%s]: %s: %s" %
                              (order_desc, type(exc).__name__, str(exc)[:300]))
                if v:
                    return v
                continue
            out_nodes = nodes["s"]
            out_names = [n.name for n in out_nodes if type(n).__name__ != "Include"]
            self.log.update((" -> " + " ".join(out_names)).encode())
            # each definition exactly once
            if sorted(out_names) != sorted(names):
                v = self.viol("C15", "completeness", "C15/output-not-a-permutation", pi,
                              "input [%s] -> output [%s]" % (order_desc, " ".join(out_names)))
                if v:
                    return v
                continue
            pos = {n: i for i, n in enumerate(out_names)}
            for n in names:
                for d in deps[n]:
                    if pos[d] > pos[n]:
                        kd = next(x["k"] for x in schema["defs"] if x["name"] == d)
                        kn = next(x["k"] for x in schema["defs"] if x["name"] == n)
                        v = self.viol("C15", "order", "C15/dependency-after-dependent/%s-needs-%s" % (kn, kd), pi,
                                      "%s needs %s but the output lists [%s] (input order [%s])" %
                                      (n, d, " ".join(out_names), order_desc))
                        if v:
                            return v
            # the generated module imports
            src = fs.get("/w/out/s.py")
            sources = {"s": src}
            if inc:
                f2 = simfs.FakeFS("/w")
                f2.mkdir("/w/out")
                f2.put("/w/%s.xml" % inc, fs.get("/w/%s.xml" % inc))
                simworld.run_prophyc(f2, ["--isar", "--python_out", "/w/out", "/w/%s.xml" % inc])
                sources[inc] = f2.get("/w/out/%s.py" % inc) or ""
            try:
                mod = simworld.import_generated(sources, want=["s"])["s"]
            except Exception as e:
                v = self.viol("C15", "import", "C15/module-import-failed/%s/%s" % (type(e).__name__, _msgkey(e)), pi,
                              "generated module does not import for input order [%s]: %s: %s" %
                              (order_desc, type(e).__name__, str(e)[:300]))
                if v:
                    return v
                continue
            self.count("imports")
            # layout equals the reference (hence identical across permutations)
            bad = layout_oracle.check_layout(R, out_nodes, mod)
            for ck, msg in bad:
                v = self.viol("C04", "layout", ck, pi, msg + " (input order [%s])" % order_desc)
                if v:
                    return v
            lay = tuple((n, getattr(getattr(mod, n), "_SIZE", None), getattr(getattr(mod, n), "_ALIGNMENT", None))
                        for n in R.composites())
            layouts.append(lay)
            if layouts[0] != lay:
                v = self.viol("C15", "layout-differs", "C15/layout-differs-between-orders", pi,
                              "layout %r for order [%s] differs from %r" % (lay, order_desc, layouts[0]))
                if v:
                    return v
            self.states.add(hashlib.sha1(repr(perm).encode()).hexdigest()[:10])
            if late >= 3:
                self.probes["definition_with_3plus_dependencies"] = self.probes.get("definition_with_3plus_dependencies", 0) + 1
        return None


LIST_FIELDS = ["perms"]


def execute(plan, armed):
    run = OrderRun(plan, armed)
    v = run.run()
    shape = gs.shape_digest(plan["schema"])
    n = len(plan["schema"]["defs"])
    return {"violation": v.as_dict() if v else None, "soft": [], "stats": run.stats, "probes": run.probes,
            "faults": run.faults,
            "states": set("%s:%s" % (shape, s) for s in run.states) if n >= 3 else set(),
            "digest": run.log.hexdigest(), "trace": run.trace, "steps": run.steps, "nontrivial": n >= 3,
            "sample": {"definitions": [d["name"] for d in plan["schema"]["defs"]], "orders": run.trace[:4],
                       "isar": getattr(run, "text", "")[:1500]}}


def simplify_plan(plan, same):
    from .pymsg import _refs
    import copy
    best = plan
    changed = True
    n_exec = 0
    while changed and n_exec < 200:
        changed = False
        defs = best["schema"]["defs"]
        for i in range(len(defs) - 1, -1, -1):
            d = defs[i]
            names = {d["name"]} | (set(m[0] for m in d["members"]) if d["k"] == "enum" else set())
            if any(names & _refs(o) for o in defs if o is not d):
                continue
            cand = copy.deepcopy(best)
            del cand["schema"]["defs"][i]
            cand["perms"] = [[x if x < i else x - 1 for x in p if x != i] for p in cand["perms"]]
            n_exec += 1
            try:
                ok = same(cand)
            except Exception:
                ok = False
            if ok:
                best, changed = cand, True
                break
    return best
