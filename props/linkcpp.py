"""S-LINK/C++ (C03, C05, C07; C++ halves of C18, C19, C04): the generated C++ full codec, compiled against the
shipped headers under ASan+UBSan, reads what the reference / Python writer stored - intact (control arm) and
after every fault of sim/link.py (fault arm) - and echoes what it decoded.
"""
import hashlib

from refmodel import types as rt
from refmodel import wire, text, msgmodel as mm
from gen import schema as gs, values as gv, render
from sim import world as simworld, fs as simfs, link, peers, runner
from sim.tape import Tape
from .pymsg import Violation, _msgkey
from . import pyapi

ALLOC_A, ALLOC_B = 65536, 1024        # bytes the decoder may request in total: A + B * len(input)


def make_plan(tape, prop):
    schema = gs.gen_schema(tape, cpp=True, shape_chance=(1, 2))
    plan = {"sim": "linkcpp", "prop": prop, "schema": schema}
    plan["values"] = [[tape.draw(1 << 16) for _ in range(48)] for _ in range(2 + tape.draw(2))]
    plan["fault_seed"] = tape.draw(1 << 30)
    plan["big"] = tape.chance(1, 8)
    plan["overlimit"] = tape.draw(1 << 16)
    plan["single"] = None
    # the compiler process may have served another schema with the same names before (stale in-process state), and the
    # schema may be split into an included file and an including file generated in one run
    plan["stale"] = tape.chance(1, 2)
    plan["split"] = 1 + tape.draw(8) if tape.chance(1, 2) else 0
    plan["split_order"] = tape.draw(2)
    return plan


_SWAP = {"u8": "u64", "u16": "u32", "u32": "u16", "u64": "u8", "i8": "i64", "i16": "i32", "i32": "i16", "i64": "i8",
         "r32": "r64", "r64": "r32"}


def decoy_schema(schema):
    """same names, other sizes: what a long-lived compiler process may have seen just before"""
    import copy
    d = copy.deepcopy(schema)
    for x in d["defs"]:
        if x["k"] == "typedef":
            x["type"] = _SWAP.get(x["type"], x["type"])
        elif x["k"] == "union":
            for a in x["arms"]:
                a["type"] = _SWAP.get(a["type"], a["type"])
        elif x["k"] == "struct":
            sizers = set(m.get("sizer") for m in x["members"])
            for m in x["members"]:
                if m["name"] not in sizers:
                    m["type"] = _SWAP.get(m["type"], m["type"])
    return d


def over_limit(t, tree, code):
    """a copy of tree in which some limited arrays hold more elements than their limit (C++ object only);
    -> (object tree, expected wire tree)"""
    import copy
    obj = copy.deepcopy(tree)
    exp = copy.deepcopy(tree)
    hit = [0]

    def walk(t, o, x, code):
        if t.cat == "union":
            name, at, _ = t.by_name[o["@arm"]]
            if at.cat in ("struct", "union"):
                walk(at, o["v"], x["v"], code // 3)
            return
        if t.cat != "struct":
            return
        for i, m in enumerate(t.members):
            if m.sizes:
                continue
            if m.arr == "limited" and (code >> i) & 1:
                extra = 1 + (code >> 8) % 3
                if m.is_bytes:
                    o[m.name] = (o[m.name] + b"\xaa" * (m.n + extra))[:m.n + extra]
                    x[m.name] = o[m.name][:m.n]
                else:
                    fill = mm.default_value(m.type)
                    while len(o[m.name]) < m.n + extra:
                        o[m.name].append(copy.deepcopy(fill))
                    x[m.name] = copy.deepcopy(o[m.name][:m.n])
                hit[0] += 1
            elif m.type.cat in ("struct", "union") and not m.is_bytes:
                if m.arr:
                    for a, b in zip(o[m.name], x[m.name]):
                        walk(m.type, a, b, code // 5)
                elif m.opt:
                    if o[m.name] is not None:
                        walk(m.type, o[m.name], x[m.name], code // 7)
                else:
                    walk(m.type, o[m.name], x[m.name], code // 11)
    walk(t, obj, exp, code)
    return obj, exp, hit[0]


def cpp_alignof(t, memo=None):
    """alignof() of the C++ object the full generator emits for type t (x86-64): a std::vector member makes it 8"""
    memo = memo if memo is not None else {}
    if t.cat == "scalar":
        return t.size
    if t.cat == "enum":
        return 4
    if id(t) in memo:
        return memo[id(t)]
    memo[id(t)] = 1
    a = 4 if t.cat == "union" else 1
    if t.cat == "union":
        for _, at, _d in t.arms:
            a = max(a, cpp_alignof(at, memo))
    else:
        for m in t.members:
            if m.sizes:
                continue
            if m.arr in ("limited", "dynamic", "greedy", "ext"):
                a = max(a, 8)
            else:
                a = max(a, cpp_alignof(m.type, memo))
    memo[id(t)] = a
    return a


def optional_flag_mismatch(t, memo=None):
    """True when the wire image of t contains an optional whose value type has a C++ alignof above its wire alignment:
    prophy's optional<T> codec pads the flag by alignof(T), not by the wire alignment (known finding, C03)"""
    memo = memo if memo is not None else {}
    if t.cat in ("scalar", "enum"):
        return False
    if id(t) in memo:
        return memo[id(t)]
    memo[id(t)] = False
    r = False
    if t.cat == "union":
        r = any(optional_flag_mismatch(at, memo) for _, at, _d in t.arms)
    else:
        for m in t.members:
            if m.sizes or m.is_bytes:
                continue
            if m.opt and m.type.cat in ("struct", "union") and cpp_alignof(m.type) > max(4, m.type.align):
                r = True
            if optional_flag_mismatch(m.type, memo):
                r = True
    memo[id(t)] = r
    return r


class CppRun(object):
    def __init__(self, plan, armed):
        self.plan = plan
        self.armed = armed
        self.stats = {}
        self.faults = {}
        self.probes = {}
        self.states = set()
        self.log = hashlib.sha1()
        self.trace = []
        self.peer = None
        self.soft = {}
        self.known = runner.load_known()

    def count(self, k, n=1):
        self.stats[k] = self.stats.get(k, 0) + n

    def probe(self, k):
        self.probes[k] = self.probes.get(k, 0) + 1

    def v(self, prop, tag, ck, msg, fault=None):
        if self.plan.get("prop") == "C04" and prop in ("C03", "C05") and "C04" in self.armed and \
                tag in ("reencode", "rejected-intact", "sizes", "fixed-size", "built-encoding"):
            # C04 speaks of "the padding it emits": a wrong padding or size in the generated code shows as a control-arm
            # disagreement of lengths / bytes; under the C04 check it is reported as such
            prop, ck = "C04", "C04/cpp/emitted-padding-or-size/" + ck.split("/", 1)[1]
            msg = "generated C++ does not reproduce the canonical image (size / padding emitted by prophyc): " + msg
        if prop in self.armed:
            if runner.known_entry(self.known, prop, ck):
                # a listed finding: report it (the runner prints KNOWN-FINDING) and keep exploring
                if ck not in self.soft:
                    self.soft[ck] = Violation(prop, tag, ck, 0, msg)
                self.count("known_finding_hits")
                return None
            v = Violation(prop, tag, ck, 0, msg)
            v.fault = fault
            return v
        self.count("unarmed:" + prop)
        return None

    # ---- world
    def setup(self):
        schema = self.plan["schema"]
        self.R = rt.Resolved(schema)
        self.text = render.prophy_text(schema)
        if self.plan.get("stale"):
            f0 = simfs.FakeFS("/w")
            f0.mkdir("/w/out")
            f0.put("/w/s.prophy", render.prophy_text(decoy_schema(schema)))
            simworld.run_prophyc(f0, ["--python_out", "/w/out", "--cpp_full_out", "/w/out", "--cpp_out", "/w/out", "/w/s.prophy"])
            self.faults["stale-compiler-state"] = 1
        fs = simfs.FakeFS("/w")
        fs.mkdir("/w/out")
        k = self.plan.get("split", 0)
        ndefs = len(schema["defs"])
        self.split = bool(k) and ndefs >= 2
        if self.split:
            k = 1 + (k - 1) % (ndefs - 1)
            fs.put("/w/inc.prophy", render.prophy_text({"defs": schema["defs"][:k]}))
            fs.put("/w/s.prophy", render.prophy_text({"defs": schema["defs"][k:]}, includes=["inc.prophy"]))
            inputs = ["/w/inc.prophy", "/w/s.prophy"] if self.plan.get("split_order") else ["/w/s.prophy", "/w/inc.prophy"]
            self.faults["split-into-include-and-main"] = 1
        else:
            fs.put("/w/s.prophy", self.text)
            inputs = ["/w/s.prophy"]
        nodes, exc, so, se = simworld.run_prophyc(fs, ["--python_out", "/w/out", "--cpp_full_out", "/w/out"] + inputs)
        if exc is not None:
            return self.v("C12", "world", "C12/valid-schema-rejected/%s/%s" % (type(exc).__name__, _msgkey(exc)),
                          "valid schema rejected by prophyc --python_out --cpp_full_out: %s\n%s" % (str(exc)[:300], self.text))
        sources = {"s": fs.get("/w/out/s.py")}
        extra = []
        if self.split:
            sources["inc"] = fs.get("/w/out/inc.py")
            extra = [("inc", fs.get("/w/out/inc.ppf.hpp"), fs.get("/w/out/inc.ppf.cpp"))]
        mods = simworld.import_generated(sources, want=["s"])
        self.module = mods["s"]
        self.modules = mods
        self.nodes = nodes["s"]
        try:
            self.peer = peers.Peer("s", fs.get("/w/out/s.ppf.hpp"), fs.get("/w/out/s.ppf.cpp"), schema, self.R, extra=extra)
        except peers.BuildFailed as e:
            return self.v("C12", "cpp-build", "C12/cpp-full-does-not-compile/%s" % _cxx_key(str(e)),
                          "generated C++ full codec does not compile:\n%s\n%s" % (str(e)[:1500], self.text))
        self.count("peers_built")
        return None

    def cls(self, name):
        for m in self.modules.values():
            if name in m.__dict__:
                return m.__dict__[name]
        return getattr(self.module, name)

    # ---- peer requests
    def ask(self, line, what):
        """-> (reply dict | None, violation | None). A dead peer is a C07/C05 violation attributed to this request."""
        reply = self.peer.request(line)
        self.count("requests")
        if reply is None:
            key = peers.sanitizer_key(self.peer.last_stderr)
            self.count("peer_aborts")
            return None, key
        if reply.startswith("A "):
            return {"tag": "A", "ok": False, "huge": int(reply.split()[1])}, None
        return peers.parse_reply(reply), None

    def check_sizes(self):
        reply = self.peer.request("L")
        got = dict(p.split("=") for p in reply.split())
        for name in self.peer.types:
            t = self.R.types[name]
            want = t.size if t.stiff == rt.FIXED else -1
            if int(got[name]) != want:
                v = self.v("C04", "cpp-size", "C04/cpp/encoded_byte_size/%s" % t.cat,
                           "%s::encoded_byte_size = %s, layout rules say %d\n%s" % (name, got[name], want, self.text))
                if v:
                    return v
            self.count("cpp_sizes_checked")
        return None

    # ---- echo oracles (C05, and value-level C03/C18/C19 when the expected tree is known)
    def check_echo(self, T, rep, e, where, expect_bytes=None, expect_tree=None, fault=None):
        n = len(rep["vec"])
        if not (rep["gbs"] == rep["ret"] == n) or not rep["ptr_eq_vec"]:
            return self.v("C05", "sizes", "C05/get_byte_size-vs-written/%s" % where,
                          "%s: get_byte_size()=%d, pointer encode wrote %d, vector encode has %d bytes (contents %s)" %
                          (T.name, rep["gbs"], rep["ret"], n, "equal" if rep["ptr_eq_vec"] else "differ"), fault)
        if T.stiff == rt.FIXED and n != T.size:
            return self.v("C05", "fixed-size", "C05/fixed-type-size/%s" % where,
                          "%s is fixed (%d bytes) but encodes to %d" % (T.name, T.size, n), fault)
        self.count("echo_checked")
        if expect_bytes is not None and rep["vec"] != expect_bytes:
            return self.v("C03", "reencode", "C03/reencode-differs/%s/%s" % (where, _first_diff_kind(T, expect_tree, expect_bytes, rep["vec"], e)),
                          "%s (%s): C++ re-encoding %s differs from canonical %s" %
                          (T.name, e, rep["vec"].hex(), expect_bytes.hex()), fault)
        if expect_tree is not None:
            want = text.render(T, expect_tree)
            if not text.text_matches(want, rep["text"]):
                return self.v("C18", "cpp-text", "C18/cpp/text-mismatch/%s" % _text_diff_kind(want, rep["text"]),
                              "%s: C++ print() = %r, reference %r" % (T.name, rep["text"], want), fault)
            self.count("cpp_text_checked")
        return None

    def run(self):
        plan = self.plan
        v = self.setup()
        if v or self.peer is None:
            return v
        try:
            v = self.check_sizes()
            if v:
                return v
            single = plan.get("single")
            for ti, name in enumerate(self.peer.types):
                T = self.R.types[name]
                for vi, vt in enumerate(plan["values"]):
                    if single and (single.get("type_name", name) != name or single["value"] != vi or
                                   ("type_name" not in single and single["type"] != ti)):
                        continue
                    tree = gv.draw_tree(Tape(replay=vt), T, big_ok=plan.get("big", False))
                    v = self.one_value(ti, T, vi, tree, single)
                    if v:
                        return v
            reports = self.peer.recovered_reports()
            if reports:
                self.count("recovered_ubsan_reports", len(reports))
                v = self.v("C07", "ubsan", "C07/ubsan:invalid-enum-value" if "not a valid value for type" in reports[0]
                           else "C07/ubsan:" + _msgkey(reports[0].split("runtime error:")[1]),
                           "undefined behaviour reported while decoding / echoing corrupted input: %s" % reports[0][:300])
                if v:
                    return v
        finally:
            self.peer.close()
        return None

    def one_value(self, ti, T, vi, tree, single):
        plan = self.plan
        try:
            encs = {"l": wire.encode(T, tree, "<", with_map=True), "b": wire.encode(T, tree, ">", with_map=True)}
        except (wire.CounterOverflow, wire.RefuseEncode):
            self.count("value_not_encodable")
            return None
        encs["n"] = encs["l"]
        if optional_flag_mismatch(T):
            return self.affected_type(ti, T, vi, tree, encs)
        aligned = wire.greedy_tail_aligned(T, tree)
        wtree = mm.wire_round(T, tree)
        self.trace.append("type %s value %d: %s" % (T.name, vi, mm.abstract_digest(T, tree)))
        # the Python writer's bytes (C03 speaks of both); a difference is C01's business, counted here
        try:
            py = pyapi.build(_W(self), T, tree)
            if py.encode("<") != encs["l"][0]:
                self.count("python_encoding_differs_from_reference")
        except Exception:
            self.count("python_build_failed")
        # ---------------- control arm
        vecs = {}
        if not single or single.get("fault") is None:
            for e in "lbn":
                E, wmap = encs[e]
                rep, dead = self.ask("D %d %s %s" % (ti, e, E.hex()), "intact")
                self.log.update(("%s:%s;" % (e, rep["tag"] if rep else dead)).encode())
                if rep is None:
                    v = self.v("C07", "sanitizer", "C07/%s/intact" % dead,
                               "sanitizer abort while decoding/echoing the intact %s encoding %s of %s:\n%s" %
                               (e, E.hex(), T.name, self.peer.last_stderr[-1500:]), {"type": ti, "type_name": T.name, "value": vi, "fault": None})
                    if v:
                        return v
                    continue
                if not aligned:
                    self.count("control_skipped_unaligned_greedy")
                    continue
                if not rep["ok"]:
                    return self.v("C03", "rejected-intact", "C03/intact-rejected/%s" % ("alloc" if rep["tag"] == "A" else "false"),
                                  "%s: C++ decode<%s> rejects the canonical encoding %s of %r\n%s" %
                                  (T.name, e, E.hex(), wtree, self.text), {"type": ti, "type_name": T.name, "value": vi, "fault": None})
                self.count("intact_accepted")
                v = self.check_echo(T, rep, e, "intact", E, wtree, {"type": ti, "type_name": T.name, "value": vi, "fault": None})
                if v:
                    return v
                vecs[e] = rep["vec"]
            if len(vecs) == 3:
                if vecs["n"] != vecs["l"]:
                    return self.v("C19", "native", "C19/cpp/native-differs-from-little",
                                  "%s: encode<native> %s != encode<little> %s" % (T.name, vecs["n"].hex(), vecs["l"].hex()))
                bad = wire.compare_orders(vecs["l"], vecs["b"], encs["l"][1])
                if bad:
                    return self.v("C19", "cpp-orders", "C19/cpp/%s" % bad[2],
                                  "%s: little/big vector encodings differ beyond scalar reversal at %r" % (T.name, bad))
                self.count("cpp_c19_checked")
                self.states.add("intact|%s" % T.cat)
            # ---------------- build arm (C05): objects decode cannot produce
            obj, exp, hits = over_limit(T, tree, plan["overlimit"] + vi)
            for which, (o, x) in (("plain", (tree, tree)), ("overlimit", (obj, exp))):
                if which == "overlimit" and not hits:
                    continue
                script = " ".join(peers.flatten(T, o, []))
                for e in "lb":
                    rep, dead = self.ask("B %d %s %s" % (ti, e, script), "build")
                    if rep is None:
                        v = self.v("C05", "sanitizer", "C05/%s/build-%s" % (dead, which),
                                   "sanitizer abort while encoding a built %s object (%s):\n%s" %
                                   (T.name, which, self.peer.last_stderr[-1500:]))
                        if v:
                            return v
                        continue
                    want = wire.encode(T, x, "<" if e == "l" else ">")
                    v = self.check_echo(T, rep, e, "build-" + which, want if aligned or which == "overlimit" else None, None)
                    if v and v.prop == "C03":
                        v = self.v("C05", "built-encoding", "C05/built-object-encoding/%s" % which,
                                   "%s built from %r encodes to %s, expected %s" % (T.name, o, rep["vec"].hex(), want.hex()))
                    if v:
                        return v
                    self.count("built_" + which)
                if which == "overlimit":
                    self.probe("limited_array_over_limit")
        # ---------------- fault arm
        for e in "lb":
            E, wmap = encs[e]
            if single:
                if single.get("fault") is None or single["e"] != e:
                    continue
                faults = [single["fault"]]
            elif len(E) > 2048:
                faults = link.enumerate_faults(E, wmap, "<" if e == "l" else ">", plan["fault_seed"] + vi, nsample=6, max_ctrl=24)
            else:
                faults = link.enumerate_faults(E, wmap, "<" if e == "l" else ">", plan["fault_seed"] + vi,
                                               max_len_all_prefixes=96, max_len_all_flips=12, nsample=24, max_ctrl=120)
            for f in faults:
                F = link.apply(E, f)
                fk = link.fault_kind(f)
                where = link.landed_in(wmap, f)
                self.faults[fk.split(":")[0]] = self.faults.get(fk.split(":")[0], 0) + 1
                rep, dead = self.ask("D %d %s %s" % (ti, e, F.hex()), "fault")
                ctx = {"type": ti, "type_name": T.name, "value": vi, "e": e, "fault": f}
                if rep is None:
                    v = self.v("C07", "sanitizer", "C07/%s/%s/%s" % (dead, fk, where),
                               "sanitizer abort in %s decode<%s> of %s (fault %r on %s):\n%s\n%s" %
                               (T.name, e, _short(F), f, _short(E), self.peer.last_stderr[-1800:], self.text), ctx)
                    if v:
                        return v
                    continue
                self.count("faulted_decodes")
                self.states.add("%s|%s|%s" % (fk, where, rep["tag"]))
                self.log.update(("%s:%s;" % (fk, rep["tag"])).encode())
                if rep["tag"] == "A":
                    return self.v("C07", "alloc", "C07/huge-allocation/%s/%s" % (fk, where),
                                  "%s decode<%s> asked for %d bytes for a %d-byte input %s (fault %r)\n%s" %
                                  (T.name, e, rep["huge"], len(F), _short(F), f, self.text), ctx)
                if rep.get("alloc_sum", 0) > ALLOC_A + ALLOC_B * len(F):
                    return self.v("C07", "alloc", "C07/disproportionate-allocation/%s/%s" % (fk, where),
                                  "%s decode<%s> allocated %d bytes (largest %d) for a %d-byte input %s (fault %r)" %
                                  (T.name, e, rep["alloc_sum"], rep["alloc_max"], len(F), _short(F), f), ctx)
                if rep["ok"]:
                    self.count("faulted_accepted")
                    if len(rep["vec"]) != len(F):
                        return self.v("C07", "length", "C07/accepted-but-reencodes-to-other-length/%s/%s" % (fk, where),
                                      "%s decode<%s> accepted %d bytes %s but re-encodes to %d bytes %s (fault %r)\n%s" %
                                      (T.name, e, len(F), _short(F), len(rep["vec"]), _short(rep["vec"]), f, self.text), ctx)
                    v = self.check_echo(T, rep, e, "accepted-faulted", None, None, ctx)
                    if v:
                        return v
                    v = self.cross_check_python(T, F, e, rep, ctx)
                    if v:
                        return v
        return None

    def affected_type(self, ti, T, vi, tree, encs):
        """types whose image holds an optional<struct-with-vector>: only the control arm runs, and any failure of it
        is reported under the one class of that defect"""
        self.probe("optional_of_struct_holding_vector")
        for e in "lb":
            E, wmap = encs[e]
            rep, dead = self.ask("D %d %s %s" % (ti, e, E.hex()), "intact")
            if rep is None or not rep["ok"] or rep["vec"] != E:
                what = "sanitizer abort (%s)" % dead if rep is None else "rejected" if not rep["ok"] else \
                    "re-encoded as %s" % rep["vec"].hex()
                return self.v("C03", "optional-alignof", "C03/optional-of-struct-holding-vector/flag-padded-by-cpp-alignof",
                              "%s: canonical %s encoding %s is %s by the C++ codec: optional<T> pads its flag by the C++ "
                              "alignof(T) (8 for structs holding std::vector) instead of the wire alignment\n%s" %
                              (T.name, e, E.hex(), what, self.text))
        return None

    def cross_check_python(self, T, F, e, rep, ctx):
        """an input both readers accept must render to the same text (C18) and the C++ re-encoding must have zero
        padding / reversed scalars per the map of the decoded value (C19)"""
        m = self.cls(T.name)()
        try:
            m.decode(F, "<" if e == "l" else ">")
        except Exception:
            return None
        try:
            tree = pyapi.observe(T, m, [])
            ptext = str(m)
        except Exception:
            return None
        if not wire.greedy_tail_aligned(T, tree):
            return None
        self.count("cross_checked_with_python")
        want = text.render(T, tree)
        if text.text_matches(want, ptext) and not text.text_matches(want, rep["text"]):
            return self.v("C18", "cpp-text", "C18/cpp/text-mismatch/%s" % _text_diff_kind(want, rep["text"]),
                          "%s: for input %s Python renders %r, C++ renders %r" % (T.name, _short(F), ptext, rep["text"]), ctx)
        try:
            canon, wmap = wire.encode(T, tree, "<" if e == "l" else ">", with_map=True)
        except Exception:
            return None
        if len(canon) == len(rep["vec"]):
            for s, en, kind, w, path, _i in wmap:
                if kind == "padding" and any(rep["vec"][s:en]):
                    return self.v("C19", "cpp-padding", "C19/cpp/nonzero-padding-reencoded/%s" % (path.rsplit("/", 1)[-1]),
                                  "%s: C++ re-encoding %s of accepted input %s has non-zero padding at [%d:%d] %s" %
                                  (T.name, _short(rep["vec"]), _short(F), s, en, path), ctx)
        return None


class _W(object):
    def __init__(self, run):
        self.run = run

    def cls(self, name):
        return self.run.cls(name)


def _short(b):
    h = bytes(b).hex()
    return h if len(h) <= 300 else h[:160] + "...(%d bytes)..." % len(b) + h[-80:]


def _cxx_key(err):
    import re
    m = re.search(r"error: ([^\n]{0,80})", err)
    if not m:
        return "unknown"
    return _msgkey(m.group(1))


def _text_diff_kind(want, got):
    a, b = want.split("\n"), got.split("\n")
    for x, y in zip(a, b):
        if x != y and not x.endswith(text.FLOAT_MASK):
            if ": '" in x:
                return "bytes"
            if x.endswith("{") or x.strip() == "}":
                return "block"
            return "scalar-after-bytes" if any(": '" in z for z in a[:a.index(x)]) else "scalar"
    return "line-count"


def _first_diff_kind(T, tree, want, got, e):
    if len(want) != len(got):
        return "length"
    try:
        _, wmap = wire.encode(T, tree, "<" if e in "ln" else ">", with_map=True)
    except Exception:
        return "bytes"
    pos = next((i for i in range(len(want)) if want[i] != got[i]), 0)
    for s, en, kind, w, path, _i in wmap:
        if s <= pos < en:
            return kind + ("-" + path.rsplit("/", 1)[1] if "/" in path else "")
    return "bytes"


def execute(plan, armed):
    run = CppRun(plan, armed)
    v = run.run()
    vd = None
    if v is not None:
        vd = v.as_dict()
        vd["fault"] = getattr(v, "fault", None)
    shape = gs.shape_digest(plan["schema"])
    return {"violation": vd, "soft": [x.as_dict() for x in run.soft.values()], "stats": run.stats, "probes": run.probes, "faults": run.faults,
            "states": set("%s:%s" % (shape, s) for s in run.states), "digest": run.log.hexdigest(),
            "trace": run.trace, "steps": run.stats.get("requests", 0),
            "nontrivial": run.stats.get("requests", 0) > 10,
            "sample": {"schema": getattr(run, "text", ""), "requests": run.stats.get("requests", 0),
                       "values": run.trace[:6]}}


def simplify_plan(plan, same):
    import copy
    res = execute(plan, {"C03", "C05", "C07", "C18", "C19", "C04", "C12"})
    v = res.get("violation")
    if v and v.get("fault"):
        cand = copy.deepcopy(plan)
        cand["single"] = v["fault"]
        try:
            if same(cand):
                plan = cand
        except Exception:
            pass
        if plan.get("single") and plan["single"].get("type_name"):
            # every candidate costs one C++ build: a small, bounded structural reduction of the schema
            from .pymsg import simplify_plan as schema_simplify
            plan = schema_simplify(dict(plan, msg_name=plan["single"]["type_name"]), same, max_exec=24)
    return plan
