"""C04's oracle: size / alignment / stiffness computed by prophyc's model and derived by the Python runtime for the
generated classes, compared with the reference layout (refmodel/types.py)."""
from refmodel import types as rt


def _model_index(nodes):
    out = {}
    for n in nodes:
        cls = type(n).__name__
        if cls == "Include":
            out.update(_model_index(n.members))
        else:
            out[n.name] = n
    return out


def check_layout(R, nodes, module):
    """-> list of (class_key, message)"""
    bad = []
    idx = _model_index(nodes)
    for name in R.order + sorted(R.typedefs):
        t = R.types[name]
        if t.cat not in ("struct", "union"):
            continue
        node = idx.get(name)
        is_typedef = name in R.typedefs
        if node is None:
            bad.append(("C04/model/missing-node", "type %s is not in prophyc's model" % name))
            continue
        # --- prophyc's model
        kind = getattr(node, "kind", None)
        # (a Typedef node's own kind is never read by any generator - members resolve through the chain to the
        # struct - so it is not observable and not compared)
        if not is_typedef and kind != t.stiff:
            bad.append(("C04/model/stiffness/%s-as-%s" % (rt.STIFF_NAME[t.stiff], rt.STIFF_NAME.get(kind, kind)),
                        "%s: prophyc classifies %s, layout rules say %s" %
                        (name, rt.STIFF_NAME.get(kind, kind), rt.STIFF_NAME[t.stiff])))
        if not is_typedef:
            if node.alignment != t.align:
                bad.append(("C04/model/alignment", "%s: prophyc alignment %r, layout rules %d" %
                            (name, node.alignment, t.align)))
            if t.stiff == rt.FIXED and node.byte_size != t.size:
                bad.append(("C04/model/byte_size/%s" % t.cat, "%s: prophyc byte_size %r, layout rules %d" %
                            (name, node.byte_size, t.size)))
            # member alignments: what the generators turn into the padding they emit (first member of a block after a
            # dynamic field carries the block's greatest alignment; an optional counts with its 4-byte flag)
            if t.cat == "struct" and len(getattr(node, "members", ())) == len(t.items):
                for it, mem in zip(t.items, node.members):
                    exp = max(it.align, it.block_align or 0)
                    if mem.alignment != exp:
                        bad.append(("C04/model/member-alignment/%s" % it.what,
                                    "%s.%s: prophyc member alignment %r, layout rules %d (%s%s)" %
                                    (name, mem.name, mem.alignment, exp, it.what,
                                     ", first of a block of alignment %d" % it.block_align if it.block_align else "")))
                        break
        # --- Python runtime statics of the generated class
        if module is not None:
            cls = getattr(module, name, None)
            if cls is None:
                bad.append(("C04/py/missing-class", "generated module has no %s" % name))
                continue
            if cls._ALIGNMENT != t.align:
                bad.append(("C04/py/alignment", "%s._ALIGNMENT = %r, layout rules %d" % (name, cls._ALIGNMENT, t.align)))
            if t.stiff == rt.FIXED and cls._SIZE != t.size:
                bad.append(("C04/py/size/%s" % t.cat, "%s._SIZE = %r, layout rules %d" % (name, cls._SIZE, t.size)))
            py_stiff = rt.UNLIMITED if cls._UNLIMITED else rt.DYNAMIC if cls._DYNAMIC else rt.FIXED
            if py_stiff != t.stiff:
                bad.append(("C04/py/stiffness/%s-as-%s" % (rt.STIFF_NAME[t.stiff], rt.STIFF_NAME[py_stiff]),
                            "%s: runtime says %s, layout rules say %s" %
                            (name, rt.STIFF_NAME[py_stiff], rt.STIFF_NAME[t.stiff])))
    return bad
