"""Glue between reference trees and real prophy runtime objects — public API only.

observe(): read the whole observable state of a message through its attributes.
build():   bring a fresh message into the state of a reference tree through public setters.
"""


class ObserveMismatch(Exception):
    pass


def norm_scalar(t, x, notes):
    if t.cat == "enum":
        v = int(x)
        name = getattr(x, "name", None)
        if name is not None and t.by_value.get(v) != name:
            notes.append("enum .name %r for value %d" % (name, v))
        return v
    if t.is_float:
        return x
    if type(x) is not int and not (isinstance(x, int) and not isinstance(x, bool)):
        notes.append("int field reads back %s %r" % (type(x).__name__, x))
        return x
    return int(x)


def observe_value(t, x, notes):
    if t.cat in ("scalar", "enum"):
        return norm_scalar(t, x, notes)
    return observe(t, x, notes)


def observe(t, obj, notes):
    if t.cat == "union":
        disc = obj.discriminator
        arm = t.by_disc.get(disc)
        if arm is None:
            notes.append("discriminator reads %r" % (disc,))
            return {"@arm": None, "v": None}
        name, at, _ = arm
        return {"@arm": name, "v": observe_value(at, getattr(obj, name), notes)}
    tree = {}
    for m in t.members:
        if m.sizes:
            continue
        x = getattr(obj, m.name)
        if m.is_bytes:
            if type(x) is str and x == "" and m.arr != "fixed":
                # pinned by the repository's own tests (x.value == ""): reported once per run as the finding
                # C10/observe/bytes-default-reads-str, then normalised so that everything else stays checked
                notes.append("@bytes-default-reads-str %s" % m.name)
                x = b""
            elif not isinstance(x, bytes):
                notes.append("bytes field %s reads back %s" % (m.name, type(x).__name__))
            tree[m.name] = bytes(x) if isinstance(x, (bytes, bytearray)) else x
        elif m.arr:
            n = len(x)
            items = [observe_value(m.type, e, notes) for e in x]
            if n != len(items):
                notes.append("len() %d != iteration %d for %s" % (n, len(items), m.name))
            tree[m.name] = items
        elif m.opt:
            tree[m.name] = None if x is None else observe_value(m.type, x, notes)
        else:
            tree[m.name] = observe_value(m.type, x, notes)
    return tree


def build(world, t, tree, obj=None):
    """Set a (fresh) runtime message to `tree` using only documented public operations."""
    if obj is None:
        obj = world.cls(t.name)()
    if t.cat == "union":
        name, at, disc = t.by_name[tree["@arm"]]
        obj.discriminator = disc
        if at.cat in ("struct", "union"):
            build(world, at, tree["v"], getattr(obj, name))
        else:
            setattr(obj, name, tree["v"])
        return obj
    for m in t.members:
        if m.sizes:
            continue
        v = tree[m.name]
        comp = m.type.cat in ("struct", "union")
        if m.is_bytes:
            setattr(obj, m.name, v)
        elif m.arr == "fixed":
            arr = getattr(obj, m.name)
            if comp:
                for e, x in zip(arr, v):
                    build(world, m.type, x, e)
            else:
                arr[:] = v
        elif m.arr:
            arr = getattr(obj, m.name)
            if comp:
                for x in v:
                    build(world, m.type, x, arr.add())
            else:
                arr.extend(list(v))
        elif m.opt:
            if v is None:
                continue
            if comp:
                setattr(obj, m.name, True)
                build(world, m.type, v, getattr(obj, m.name))
            else:
                setattr(obj, m.name, v)
        elif comp:
            build(world, m.type, v, getattr(obj, m.name))
        else:
            setattr(obj, m.name, v)
    return obj
