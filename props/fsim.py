"""S-FS (C16): one schema split over several files in a simulated directory tree, compiled by one prophyc
invocation, against the same declarations compiled as a single file.

Fault arm: a missing include, an include closing a cycle, a read error on an include.
"""
import hashlib
import posixpath

from refmodel import types as rt
from refmodel import wire, msgmodel as mm
from gen import schema as gs, values as gv, render
from sim import world as simworld, fs as simfs
from sim.clock import StepClock, SimTimeout
from sim.tape import Tape
from .pymsg import Violation, _msgkey, _refs
from . import pyapi

STEP_A, STEP_B = 600000, 6000

DIRS = ["/w/src", "/w/src/sub", "/w/inc1", "/w/inc2", "/w/src/sub/deep"]


def make_plan(tape, prop):
    feats = gs.draw_features(tape)
    for f in ("consts", "enums", "typedefs", "unions", "nested"):
        if tape.chance(1, 2):
            feats[f] = True
    syntax = "isar" if tape.chance(1, 4) else "prophy"
    if syntax == "isar":
        for f in ("arr_dynamic", "arr_greedy", "bytes"):
            feats[f] = False
        feats["_forbid"] = ("arr_dynamic", "arr_greedy", "bytes")
    schema = None
    for _ in range(4):
        schema = gs.gen_schema(tape, feats=feats)
        if len(schema["defs"]) >= 3:
            break
    defs = schema["defs"]
    n = len(defs)
    nfiles = min(n, 2 + tape.draw(4))
    # assign definitions to files: never below the highest file of anything the definition needs
    owner = {}
    for d in defs:
        owner[d["name"]] = d["name"]
        if d["k"] == "enum":
            for mem in d["members"]:
                owner[mem[0]] = d["name"]
    file_of = {}
    assign = []
    hi = 0
    for i, d in enumerate(defs):
        need = [file_of[owner[r]] for r in _refs(d) if r in owner and owner[r] in file_of]
        lo = max(need) if need else 0
        top = min(nfiles - 1, hi + 1)
        f = lo + tape.draw(top - lo + 1) if top >= lo else lo
        hi = max(hi, f)
        file_of[d["name"]] = f
        assign.append(f)
    plan = {"sim": "fs", "prop": prop, "schema": schema, "assign": assign, "syntax": syntax}
    used = sorted(set(assign))
    plan["dirs"] = {str(f): tape.draw(len(DIRS)) for f in used}
    plan["spelling"] = tape.draw(1 << 16)
    plan["inc_dirs"] = tape.draw(16)           # bit0: -I /w/inc1 ; bit1: -I /w/inc2 ; bit2: -I /w/src ; bit3: -I /w ; order below
    plan["separate"] = tape.chance(1, 3)       # one prophyc invocation per file (as a build system would) instead of one for all
    plan["inc_order"] = tape.draw(2)
    plan["cwd"] = tape.draw(4)
    plan["abs_inputs"] = tape.draw(2)
    plan["input_order"] = [tape.draw(1 << 10) for _ in used]
    plan["decoy"] = tape.draw(4)               # 0: none
    plan["fault"] = tape.weighted([6, 1, 1, 1])   # none / missing include / cyclic include / EIO on include
    plan["fault_at"] = tape.draw(1 << 10)
    plan["values"] = [tape.draw(1 << 16) for _ in range(64)]
    # a header without any declaration (licence / placeholder file) that several files include
    plan["empty_header"] = tape.draw(1 << 8) if tape.chance(1, 4) else 0
    plan["dirs"]["99"] = tape.draw(len(DIRS))
    # an included file whose basename equals the name of a definition made elsewhere (include nodes and definitions share
    # the sorter's name space)
    plan["name_clash"] = tape.draw(1 << 8) if tape.chance(1, 6) else 0
    # "each file processed once": a layered diamond (two files per layer, each including both files of the layer below)
    # has 2^depth include paths to its bottom; the simulated clock tells whether the work follows the paths or the files
    plan["inc_comment"] = 1 + tape.draw(3) if tape.chance(1, 6) else 0
    plan["deep"] = (14 + tape.draw(2)) if tape.chance(1, 150) else 0
    if plan["deep"] and tape.chance(1, 3):
        plan["deep"] += 10      # 2^24 paths: also a per-path cost of a few line events exceeds the budget (C13_h)
    plan["deep_isar"] = tape.chance(1, 3)
    return plan


def _relpath(target, start):
    return posixpath.relpath(target, start)


class Arrangement(object):
    """Turns a plan into files, include spellings and a command line, following the search rule stated in
    docs/schema.rst: the including file's directory first, then the -I directories in command-line order."""

    def __init__(self, plan):
        self.plan = plan
        schema = plan["schema"]
        self.defs = schema["defs"]
        self.files = sorted(set(plan["assign"]))
        self.dir_of = {f: DIRS[plan["dirs"][str(f)] % len(DIRS)] for f in self.files}
        self.ext = ".xml" if plan.get("syntax") == "isar" else ".prophy"
        self.path_of = {f: "%s/p%d%s" % (self.dir_of[f], f, self.ext) for f in self.files}
        inc = []
        if plan["inc_dirs"] & 1:
            inc.append("/w/inc1")
        if plan["inc_dirs"] & 2:
            inc.append("/w/inc2")
        if plan["inc_dirs"] & 4:
            inc.append("/w/src")
        if plan["inc_dirs"] & 8:
            inc.append("/w")
        if plan["inc_order"]:
            inc.reverse()
        self.inc = inc
        self.cwd = ["/w", "/w/src", "/elsewhere", "/w/out"][plan["cwd"] % 4]
        owner = {}
        for d, f in zip(self.defs, plan["assign"]):
            owner[d["name"]] = f
            if d["k"] == "enum":
                for mem in d["members"]:
                    owner[mem[0]] = f
        self.includes = {f: [] for f in self.files}
        for d, f in zip(self.defs, plan["assign"]):
            for r in sorted(_refs(d)):
                g = owner.get(r)
                if g is not None and g != f and g not in self.includes[f]:
                    self.includes[f].append(g)
        if plan.get("name_clash"):
            included = sorted(set(g for f in self.files for g in self.includes.get(f, [])))
            if included:
                g = included[plan["name_clash"] % len(included)]
                others = [d["name"] for d, a in zip(self.defs, plan["assign"]) if a != g and d["k"] in ("struct", "union", "enum")]
                if others:
                    nm = others[(plan["name_clash"] // 7) % len(others)]
                    self.path_of[g] = "%s/%s%s" % (self.dir_of[g], nm, self.ext)
                    self.clash = nm
        self.header = None
        if plan.get("empty_header"):
            users = [f for i, f in enumerate(self.files) if (plan["empty_header"] >> i) & 1]
            if len(users) >= 1:
                self.header = 99
                self.files = self.files + [99]
                self.dir_of[99] = DIRS[plan["dirs"].get("99", 0) % len(DIRS)]
                self.path_of[99] = "%s/p99%s" % (self.dir_of[99], self.ext)
                self.includes[99] = []
                for f in users:
                    self.includes[f].insert(0, 99)
        self.decoys = {}
        self.via_inc_subdir = 0
        self.spell = {}
        self.clash = getattr(self, "clash", None)
        sp = plan["spelling"]
        for f in self.files:
            for k, g in enumerate(self.includes[f]):
                self.spell[(f, g)] = self._spelling(f, g, (sp >> (2 * ((f * 3 + k) % 8))) & 3)

    def _all_paths(self):
        return set(self.path_of.values())

    def _search_dirs(self, f):
        return [self.dir_of[f]] + self.inc

    def _spelling(self, f, g, style):
        base = posixpath.basename(self.path_of[g])
        rel = _relpath(self.path_of[g], self.dir_of[f])
        # bare basename works when the first directory of the search order holding that basename is g's
        dirs = self._search_dirs(f)
        bare_ok = self.dir_of[g] in dirs
        if style == 0 and bare_ok:
            return base
        if style == 1:
            # a second spelling of the same file: through its own directory and back
            d = posixpath.dirname(rel)
            if d and not d.startswith(".."):
                return "%s/../%s/%s" % (d, posixpath.basename(d), base)
            return "./" + rel if bare_ok or not rel.startswith("..") else rel
        if style == 2:
            # a path with a directory component that only resolves through an -I directory (an ancestor of g's dir)
            own = self.dir_of[f]
            for d in self.inc:
                if self.dir_of[g].startswith(d + "/") and d != own:
                    sp = _relpath(self.path_of[g], d)
                    # it must not resolve earlier in the search order (own directory first)
                    first = next((x for x in dirs if posixpath.normpath(posixpath.join(x, sp)) in self._all_paths()), None)
                    if first == d and "/" in sp:
                        self.via_inc_subdir += 1
                        return sp
            if bare_ok:
                return base
        return rel

    def populate(self, fs):
        for d in DIRS + ["/w/out", "/elsewhere"]:
            fs.mkdir(d)
        for f in self.files:
            mine = [d for d, a in zip(self.defs, self.plan["assign"]) if a == f]
            incs = [self.spell[(f, g)] for g in self.includes[f]]
            if self.ext == ".xml":
                text = render.isar_text(mine, includes=incs)
            else:
                text = render.prophy_text({"defs": mine}, includes=incs)
                style = self.plan.get("inc_comment", 0)
                if style and incs:
                    # a comment after the directive, with a quoted word in it (what the line is for)
                    tail = [' // provides "%s"', ' /* see "%s" */', '\t// "quoted"'][style - 1]
                    lines = text.split("\n")
                    for i, ln in enumerate(lines):
                        if ln.startswith("#include "):
                            lines[i] = ln + (tail % "types" if "%s" in tail else tail)
                    text = "\n".join(lines)
                if f == 99:
                    text = "/* placeholder header: no declarations */\n// nothing here\n"
            fs.put(self.path_of[f], text)
        # decoy: same basename, different content, in a directory that comes later in the search order of *every*
        # file that includes g by its bare name (and is searched by at least one of them)
        if self.plan["decoy"] and self.plan["fault"] == 0:
            for g in self.files:
                base = posixpath.basename(self.path_of[g])
                users = [f for f in self.files if g in self.includes[f] and self.spell[(f, g)] == base]
                if not users:
                    continue
                for cand in DIRS:
                    if cand == self.dir_of[g] or fs.get("%s/%s" % (cand, base)) is not None:
                        continue
                    ok, searched = True, False
                    for f in users:
                        dirs = self._search_dirs(f)
                        if cand in dirs:
                            searched = True
                            if dirs.index(cand) < dirs.index(self.dir_of[g]):
                                ok = False
                    if ok and searched:
                        dec = "%s/%s" % (cand, base)
                        fs.put(dec, "struct Decoy%d { u8 wrong; };\n" % g if self.ext != ".xml" else
                               '<dom><struct name="Decoy%d"><member name="wrong" type="u8"/></struct></dom>' % g)
                        self.decoys[dec] = g
                        break

    def argv(self):
        def show(p):
            if self.plan["abs_inputs"]:
                return p
            return _relpath(p, self.cwd)
        order = sorted(range(len(self.files)), key=lambda i: (self.plan["input_order"][i % len(self.plan["input_order"])] + (7 * i if i >= len(self.plan["input_order"]) else 0), i))
        inputs = [show(self.path_of[self.files[i]]) for i in order]
        args = []
        for d in self.inc:
            args += ["-I", show(d)]
        return (["--isar"] if self.ext == ".xml" else []) + args + ["--python_out", show("/w/out")] + inputs


class _MultiWorld(object):
    def __init__(self, mods):
        self.mods = mods

    def cls(self, name):
        for m in self.mods.values():
            if name in m.__dict__ and getattr(m.__dict__[name], "__module__", "").endswith(m.__name__.split(".")[-1]):
                return m.__dict__[name]
        for m in self.mods.values():
            if name in m.__dict__:
                return m.__dict__[name]
        raise KeyError(name)


class FsRun(object):
    def __init__(self, plan, armed):
        self.plan = plan
        self.armed = armed
        self.stats = {}
        self.faults = {}
        self.probes = {}
        self.states = set()
        self.log = hashlib.sha1()
        self.trace = []
        self.steps = 0

    def count(self, k, n=1):
        self.stats[k] = self.stats.get(k, 0) + n

    def probe(self, k):
        self.probes[k] = self.probes.get(k, 0) + 1

    def run_deep(self, depth, isar):
        from sim.clock import StepClock, SimTimeout
        fs = simfs.FakeFS("/w")
        fs.mkdir("/w/out")
        ext = ".xml" if isar else ".prophy"
        for k in range(depth):
            for j in (0, 1):
                if isar:
                    defs = [{"k": "struct", "name": "L%d_%d" % (k, j), "members":
                             [{"name": "a", "type": "u8", "arr": None, "opt": False}] +
                             ([] if k == 0 else [{"name": "b", "type": "L%d_0" % (k - 1), "arr": None, "opt": False},
                                                 {"name": "c", "type": "L%d_1" % (k - 1), "arr": None, "opt": False}])}]
                    text = render.isar_text(defs, includes=[] if k == 0 else ["l%d_0.xml" % (k - 1), "l%d_1.xml" % (k - 1)])
                else:
                    inc = "" if k == 0 else "".join('#include "l%d_%d.prophy"\n' % (k - 1, jj) for jj in (0, 1))
                    text = inc + "struct L%d_%d { u8 a; %s};\n" % (k, j, "" if k == 0 else "L%d_0 b; L%d_1 c; " % (k - 1, k - 1))
                fs.put("/w/l%d_%d%s" % (k, j, ext), text)
        nfiles = 2 * depth
        budget = 2000000 + 400000 * nfiles        # a file of this size costs about 220 k line events (ply start-up included)
        clock = StepClock(budget, cpu_budget_s=120)
        kind = "deep-layered-diamond" + ("/isar" if isar else "")
        self.faults[kind] = self.faults.get(kind, 0) + 1
        self.trace.append("layered diamond: depth %d, %d files, %s" % (depth, nfiles, ext))
        self.log.update(("deep %d %s" % (depth, ext)).encode())
        try:
            with clock:
                nodes, exc, so, se = simworld.run_prophyc(fs, (["--isar"] if isar else []) + [
                    "--python_out", "/w/out", "/w/l%d_0%s" % (depth - 1, ext)])
        except SimTimeout:
            self.steps += clock.steps
            return self.v("C16", "work", "C16/include-diamond-work-grows-with-paths-not-files",
                          "compiling the top of a layered include diamond of depth %d (%d files of 3 declarations) exceeded "
                          "%d line events (about twice what %d such files cost when each is processed once): the work "
                          "follows the 2^%d include paths" % (depth, nfiles, budget, nfiles, depth))
        self.steps += clock.steps
        self.count("deep_diamond_compiles")
        if exc is not None:
            return self.v("C16", "compile-failed", "C16/compile-failed/%s/%s" % (type(exc).__name__, _msgkey(exc)),
                          "layered diamond of depth %d failed: %s: %s" % (depth, type(exc).__name__, str(exc)[:300]))
        self.states.add("deep:%d:%s" % (depth, ext))
        return None

    def run(self):
        plan = self.plan
        if plan.get("deep"):
            return self.run_deep(plan["deep"], plan.get("deep_isar"))
        arr = Arrangement(plan)
        fs = simfs.FakeFS(arr.cwd)
        arr.populate(fs)
        schema = plan["schema"]
        fault = ["none", "missing", "cycle", "eio"][plan["fault"]]
        edges = [(f, g) for f in arr.files for g in arr.includes[f]]
        victim = None
        if fault != "none" and not edges:
            fault = "none"
        if fault == "missing":
            f, g = edges[plan["fault_at"] % len(edges)]
            # the file is removed; it is then also dropped from the inputs (an input that does not exist is an
            # option error, not an include error)
            del fs.files[arr.path_of[g]]
            victim = arr.path_of[g]
        elif fault == "cycle":
            f, g = edges[plan["fault_at"] % len(edges)]
            text = fs.get(arr.path_of[g])
            back = _relpath(arr.path_of[f], arr.dir_of[g])
            if arr.ext == ".xml":
                fs.put(arr.path_of[g], text.replace("<dom xmlns:xi=\"http://www.w3.org/2001/XInclude\">",
                                                    "<dom xmlns:xi=\"http://www.w3.org/2001/XInclude\"><xi:include href=\"%s\"/>" % back, 1))
            else:
                fs.put(arr.path_of[g], '#include "%s"\n' % back + text)
            # the back edge may close several cycles (g can be included by other files that f needs): the diagnostic may
            # name any file of the arrangement
            victim = tuple([arr.path_of[f], arr.path_of[g]] + [arr.path_of[x] for x in arr.files])
        argv = arr.argv()
        if fault == "missing":
            shown = _relpath(victim, arr.cwd) if not plan["abs_inputs"] else victim
            argv = [a for a in argv if a != shown]
        if fault == "eio":
            # the k-th read of the invocation fails, k chosen among reads that are includes: decided after a dry run
            pass
        self.trace.append("cwd=%s argv=%s" % (arr.cwd, " ".join(argv)))
        for f in arr.files:
            self.trace.append("%s: includes %s" % (arr.path_of[f], [arr.spell[(f, g)] for g in arr.includes[f]]))
        if arr.decoys:
            self.trace.append("decoys: %s" % sorted(arr.decoys))
            self.probe("decoy_later_in_search_order")
        self.log.update("\n".join(self.trace).encode())
        self.faults[fault + ("/isar" if arr.ext == ".xml" else "")] = self.faults.get(fault + ("/isar" if arr.ext == ".xml" else ""), 0) + 1
        if plan.get("inc_comment") and arr.ext != ".xml":
            self.faults["comment-with-quotes-after-include"] = self.faults.get("comment-with-quotes-after-include", 0) + 1
        if any("/../" in s for s in arr.spell.values()):
            self.probe("include_through_second_spelling")
        if arr.cwd not in ("/w",):
            self.probe("compiled_from_other_cwd")
        if arr.header and sum(1 for f in arr.files if 99 in arr.includes[f]) >= 2:
            self.probe("empty_header_included_twice")
        if arr.via_inc_subdir:
            self.probe("include_with_subdirectory_found_through_-I")
        if arr.clash:
            self.probe("include_named_like_a_definition")
        indeg = {}
        for f, g in edges:
            indeg[g] = indeg.get(g, 0) + 1
        if any(v >= 2 for v in indeg.values()):
            self.probe("include_diamond")
        if fault == "eio":
            dry = simfs.FakeFS(arr.cwd)
            arr.populate(dry)
            simworld.run_prophyc(dry, argv)
            inputs_abs = set(dry.abspath(a) for a in argv if a.endswith((".prophy", ".xml")))
            # an include read = a read that happens while another file is being parsed: every read after the first
            cands = [k for k, p in enumerate(dry.reads) if k > 0]
            if not cands:
                fault = "none"
            else:
                k = cands[plan["fault_at"] % len(cands)]
                fs.faults[("read", k)] = 5
                victim = dry.reads[k]
        clock = StepClock((STEP_A + STEP_B * sum(len(v) for v in fs.files.values())) * (len(arr.files) if plan.get("separate") else 1))
        separate = plan.get("separate") and fault == "none"
        reads_per_invocation = []
        try:
            with clock:
                if separate:
                    inputs = [a for a in argv if a.endswith((".prophy", ".xml"))]
                    common = [a for a in argv if not a.endswith((".prophy", ".xml"))]
                    exc = None
                    for one in inputs:
                        before = len(fs.reads)
                        nodes, exc, so, se = simworld.run_prophyc(fs, common + [one])
                        reads_per_invocation.append(fs.reads[before:])
                        self.count("compiles")
                        if exc is not None:
                            break
                    self.probe("one_invocation_per_file")
                else:
                    nodes, exc, so, se = simworld.run_prophyc(fs, argv)
                    reads_per_invocation.append(list(fs.reads))
                    self.count("compiles")
        except SimTimeout:
            return self.v("C16", "hang", "C16/step-budget/%s" % fault, "multi-file compile exceeded the step budget")
        self.steps += clock.steps
        if fault != "none":
            return self.check_fault(fault, victim, exc, se, fs, arr)
        if exc is not None:
            return self.v("C16", "compile-failed", "C16/compile-failed/%s/%s" % (type(exc).__name__, _msgkey(str(exc).split("\n")[0].split("error:")[-1])),
                          "multi-file compile failed: %s: %s" % (type(exc).__name__, str(exc)[:400]))
        # each source read at most once
        seen = {}
        for reads in reads_per_invocation:
            once = {}
            for p in reads:
                once[p] = once.get(p, 0) + 1
                seen[p] = 1
            for p, c in sorted(once.items()):
                if c > 1:
                    return self.v("C16", "read-twice", "C16/file-read-more-than-once",
                                  "%s was read %d times in one invocation (reads: %s)" % (p, c, reads))
        for p in arr.decoys:
            if p in seen:
                return self.v("C16", "decoy", "C16/decoy-read", "decoy %s was read although %s comes first in the "
                              "search order" % (p, arr.path_of[arr.decoys[p]]))
        # outputs
        sources = {}
        for f in arr.files:
            base = posixpath.splitext(posixpath.basename(arr.path_of[f]))[0]
            src = fs.get("/w/out/%s.py" % base)
            if not src:
                return self.v("C16", "output-missing", "C16/output-missing", "no output for %s" % arr.path_of[f])
            sources[base] = src
        try:
            mods = simworld.import_generated(sources)
        except Exception as e:
            enumerators = set(m[0] for d in schema["defs"] if d["k"] == "enum" for m in d["members"])
            import re
            m = re.search(r"name '(\w+)' is not defined", str(e))
            if arr.ext == ".xml" and isinstance(e, NameError) and m and m.group(1) in enumerators:
                return self.v("C16", "import", "C16/isar/enumerator-of-included-enum-not-imported",
                              "generated Python module uses enumerator %s of an enum defined in an included file, but the "
                              "import statement lists only type and constant names: %s" % (m.group(1), str(e)[:200]))
            return self.v("C16", "import", "C16/package-import-failed/%s/%s" % (type(e).__name__, _msgkey(e)),
                          "generated modules do not import as a package: %s: %s" % (type(e).__name__, str(e)[:300]))
        self.count("imports")
        # control: the concatenation in file order
        concat = {"defs": [d for f in arr.files for d, a in zip(arr.defs, plan["assign"]) if a == f]}
        R = rt.Resolved(concat)
        try:
            if arr.ext == ".xml":
                single = simworld.World(render.isar_text(concat["defs"]), syntax="isar")
            else:
                single = simworld.World(render.prophy_text(concat))
        except Exception as e:
            self.count("control_failed")
            return None
        multi = _MultiWorld(mods)
        # constants
        for d in concat["defs"]:
            names = [d["name"]] if d["k"] == "const" else [m[0] for m in d["members"]] if d["k"] == "enum" else []
            for n in names:
                a = getattr(single.module, n, None)
                b = next((m.__dict__[n] for m in mods.values() if n in m.__dict__), None)
                if a != b or a != R.consts.get(n, a):
                    return self.v("C16", "constant", "C16/constant-differs", "%s: single-file %r, multi-file %r, "
                                  "reference %r" % (n, a, b, R.consts.get(n)))
        # layouts and encodings
        vt = Tape(replay=plan["values"])
        for name in R.composites():
            T = R.types[name]
            ca, cb = single.cls(name), multi.cls(name)
            sa = (ca._SIZE, ca._ALIGNMENT, ca._DYNAMIC, ca._UNLIMITED)
            sb = (cb._SIZE, cb._ALIGNMENT, cb._DYNAMIC, cb._UNLIMITED)
            if sa != sb:
                return self.v("C16", "layout", "C16/layout-differs", "%s: single-file statics %r, multi-file %r" % (name, sa, sb))
            for k in range(2):
                tree = gv.draw_tree(vt, T)
                try:
                    want = wire.encode(T, tree, "<")
                except (wire.RefuseEncode, wire.CounterOverflow):
                    continue
                ea = pyapi.build(single, T, tree).encode("<")
                eb = pyapi.build(multi, T, tree).encode("<")
                if not (ea == eb == want):
                    return self.v("C16", "encoding", "C16/encoding-differs", "%s: single %s multi %s reference %s" %
                                  (name, ea.hex(), eb.hex(), want.hex()))
                self.count("encodings_compared")
        self.states.add(hashlib.sha1(repr((plan["assign"], sorted(plan["dirs"].items()), plan["inc_dirs"],
                                           plan["cwd"], plan["abs_inputs"], sorted(arr.spell.values()))).encode()).hexdigest()[:10])
        return None

    def check_fault(self, fault, victim, exc, stderr, fs, arr):
        victims = victim if isinstance(victim, tuple) else (victim,)
        bases = [posixpath.basename(x) for x in victims if x]
        if arr.ext == ".xml" and fault in ("missing", "cycle"):
            # the isar front-end downgrades missing and cyclic includes to a warning by design (asserted by the pinned
            # suite): the weaker reading applies - reported, never silently dropped
            self.count("isar_include_fault")
            if not any(b in stderr and "warning" in stderr for b in bases):
                return self.v("C16", "fault-silent", "C16/%s-include/isar-not-even-warned" % fault,
                              "isar %s include of %s produced no warning naming the file; stderr: %r" %
                              (fault, bases, stderr[:300]))
            return None
        if exc is None:
            return self.v("C16", "fault-accepted", "C16/%s-include/compiled-successfully" % fault,
                          "the invocation succeeded although %s (%s)" %
                          ({"missing": "an included file does not exist", "cycle": "the includes form a cycle",
                            "eio": "reading an included file failed"}[fault], victim))
        msg = str(exc)
        self.count("fault_rejected")
        if fault in ("missing", "cycle"):
            if type(exc).__name__ not in ("ProphycError", "SystemExit"):
                return self.v("C16", "fault-channel", "C16/%s-include/raised:%s" % (fault, type(exc).__name__),
                              "%s include ended in %s: %s" % (fault, type(exc).__name__, msg[:300]))
            if not any(b in msg for b in bases):
                return self.v("C16", "fault-not-named", "C16/%s-include/file-not-named" % fault,
                              "the diagnostic does not name %s: %s" % (bases, msg[:300]))
        return None

    def v(self, prop, tag, ck, msg):
        if prop in self.armed:
            return Violation(prop, tag, ck, 0, msg)
        return None


def execute(plan, armed):
    run = FsRun(plan, armed)
    v = run.run()
    shape = gs.shape_digest(plan["schema"])
    nfiles = len(set(plan["assign"]))
    return {"violation": v.as_dict() if v else None, "soft": [], "stats": run.stats, "probes": run.probes,
            "faults": run.faults, "states": set("%s:%s" % (shape, s) for s in run.states) if nfiles >= 2 else set(),
            "digest": run.log.hexdigest(), "trace": run.trace, "steps": run.steps, "nontrivial": nfiles >= 2,
            "sample": {"arrangement": run.trace[:8]}}
