#!/bin/sh
# tools/try_patch.sh <id> <outdir with patch.diff + demo.py> "<props>" : fresh worktree of /repo HEAD + patch, then confirm + check
id=$1; out=$2; props=$3
wt=/dev/shm/seedtry_$id
git -C /repo worktree remove --force $wt 2>/dev/null
git -C /repo worktree add -q --detach $wt HEAD || exit 2
echo "== $id"
if ! git -C $wt apply $out/patch.diff; then echo "patch does not apply"; git -C /repo worktree remove --force $wt; exit 1; fi
( cd $wt && /venv/bin/python -m pytest -q -p no:cacheprovider 2>&1 | tail -1 )
PROPHY_TREE=/repo timeout 900 /venv/bin/python $out/demo.py > /tmp/demo_orig_$id.out 2>&1; echo "demo on original: exit $?"
PROPHY_TREE=$wt timeout 900 /venv/bin/python $out/demo.py > /tmp/demo_mut_$id.out 2>&1; echo "demo on changed: exit $?"
for p in $props; do
  ( cd /verif && VERIF_REPO=$wt timeout -s KILL 1800 ./check $p > /tmp/seeded_${id}_$p.out 2>&1; echo "check $p vs changed tree: exit $? $(grep -m1 '^VIOLATION' /tmp/seeded_${id}_$p.out) $(grep -m1 '^violation class' /tmp/seeded_${id}_$p.out | cut -c1-200)" )
done
git -C /repo worktree remove --force $wt
