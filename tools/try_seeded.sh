#!/bin/sh
# tools/try_seeded.sh <id> <worktree> <outdir> "<props>"  : confirm a sub-agent's change and run checks against it (VERIF_REPO)
id=$1; wt=$2; out=$3; props=$4
echo "== $id"
( cd $wt && /venv/bin/python -m pytest -q -p no:cacheprovider 2>&1 | tail -1 )
PROPHY_TREE=/repo timeout 600 /venv/bin/python $out/demo.py > /tmp/demo_orig_$id.out 2>&1; echo "demo on original: exit $?"
PROPHY_TREE=$wt timeout 600 /venv/bin/python $out/demo.py > /tmp/demo_mut_$id.out 2>&1; echo "demo on changed: exit $?"
for p in $props; do
  ( cd /verif && VERIF_REPO=$wt timeout -s KILL 1500 ./check $p > /tmp/seeded_${id}_$p.out 2>&1; echo "check $p vs changed tree: exit $? $(grep -m1 '^VIOLATION' /tmp/seeded_${id}_$p.out) $(grep -m1 '^violation class' /tmp/seeded_${id}_$p.out | cut -c1-160)" )
done
