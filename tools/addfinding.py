#!/usr/bin/env python3
"""tools/addfinding.py fixed|known <property> <commit|-> <class_key> <what>   (edits known_findings.json)"""
import json, sys
status, prop, commit, ck, what = sys.argv[1:6]
p = "/verif/known_findings.json"
d = json.load(open(p))
e = {"property": prop, "status": status, "class_key": ck, "what": what}
if status == "fixed":
    e["commit"] = commit
    e["record"] = "fixed: property=%s %s %s" % (prop, commit, what)
d["findings"].append(e)
json.dump(d, open(p, "w"), indent=1)
