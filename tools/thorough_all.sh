#!/bin/sh
# tools/thorough_all.sh "<props>" [seed] -- thorough tier of each listed check, one line per check
cd "$(dirname "$0")/.." || exit 2
seed=${2:-0}
for p in $1; do
  start=$(date +%s)
  out=$(VERIF_SEED=$seed timeout -s KILL 14000 ./check $p --tier thorough 2>&1)
  code=$?
  echo "thorough seed=$seed prop=$p exit=$code $(( $(date +%s) - start ))s $(echo "$out" | tail -1)"
  echo "$out" | grep -E "^violation class|^VIOLATION|HARNESS|^KNOWN-FINDING|probes_at_zero" | cut -c1-400
done
