#!/bin/sh
# tools/soak.sh "<seeds>" "<props>" [tier]  -- runs every check at every seed, prints one line per (seed, prop)
cd "$(dirname "$0")/.." || exit 2
tier=${3:-quick}
for seed in $1; do
  for p in $2; do
    out=$(VERIF_SEED=$seed timeout -s KILL 3000 ./check $p --tier $tier 2>&1)
    code=$?
    echo "seed=$seed prop=$p exit=$code $(echo "$out" | tail -1)"
    if [ $code -ne 0 ]; then echo "$out" | grep -E "^violation class|^VIOLATION|HARNESS" | cut -c1-400; fi
  done
done
