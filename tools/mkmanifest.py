import json
NA = {
 "C08": "pure compile-time fact (offsetof/sizeof of declarations in a generated header): after prophyc returns nothing of the repository runs, so there is no history, order, fault, clock or I/O for a simulator to own; the honest tool is translation validation by the C++ compiler, not simulation (DESIGN.md section 3, C08)",
 "C09": "prophy::swap is a pure buffer-to-buffer function and the statement excludes malformed input: no fault, history, order or timing its truth could depend on; checking it would be input generation dressed up as simulation (DESIGN.md section 3, C09)",
 "C14": "expression evaluation is a pure function of the expression text and the constants in scope; nothing is scheduled, injected, timed or persisted (the one termination/diagnostic aspect, '/' producing a float, is covered under C13) (DESIGN.md section 3, C14)",
 "C17": "a relation between two pure translations (isar+patch vs prophy text) of one schema: no schedule, fault, clock or I/O dimension; needs an input generator unrelated to the simulator (DESIGN.md section 3, C17)",
}
PENDING = {}
checks = []
def chk(pid, level, text, note, technique, engine, ref):
    checks.append({"property_id": pid, "quick_cmd": "./check %s --tier quick" % pid,
      "thorough_cmd": "./check %s --tier thorough" % pid, "evidence_file": "evidence/%s.json" % pid,
      "replay_cmd_template": "./check %s --replay {path}" % pid, "engine": engine,
      "level_claimed": {"category": level, "text": text, "design_ref": ref}, "level_note": note, "technique": technique})
TB = "trusted base: the reference model in /verif/refmodel (layout, wire bytes+map, text, message semantics) written from docs/*.rst and pinned by the documentation's own examples; the schema generator's bounds (<=10 definitions, <=8 members, depth <=4)"
H = "deterministic simulation: seeded histories of public-API operations on two live messages vs. a reference message model, observation schedule drawn per run, one seed = one replayable plan"
chk("C01","exploration","seeded search over (schema, API history) pairs; after every scheduled observation both byte orders of encode() are compared byte for byte with an independent reference encoder; a clean batch is evidence, not proof",TB,H+"; oracle: reference encoder","sim-hist","3/C01")
chk("C02","exploration","every state reached by a simulated history (greedy tails ending aligned) is decoded from the runtime's own encoding into a fresh message: consumed length, field-for-field value, re-encoding; fault-free control arm of the stored-message simulation",TB,H+"; oracle: decode(encode(x)) == x with exact length","sim-hist","3/C02")
chk("C10","exploration","seeded histories (<=40 operations incl. rejected ones, wrong types, bad indices, faulting iterables) executed against the real runtime and a reference model; outcome class and full observable state compared after each scheduled step",TB,H+"; oracle: reference message model (accept/reject + state)","sim-hist","3/C10")
chk("C11","exploration","copy_from / composite extend are operations of the same histories; the per-step comparison of both messages yields equality after the copy and independence under later mutations of either side",TB,H+"; oracle: deep-copy semantics of the reference model on two live messages","sim-hist","3/C11")
chk("C18","exploration","str() of every observed state compared with the reference renderer (floats masked); C++ half pending the peer",TB,H+"; oracle: reference renderer","sim-hist","3/C18")
chk("C19","exploration","for every observed state the two byte orders are compared range by range using the reference byte map (scalars reversed, bytes equal, padding zero); C++ half pending the peer",TB,H+"; oracle: reference byte map","sim-hist","3/C19")
chk("C06","fault_enumeration","for every visited encoding the fault set is enumerated completely up to the stated sizes (every prefix <=256 B, every bit <=32 B, every control word x boundary values) and sampled beyond; the real decoder runs under a step clock and a memory meter; outcome must be return or ProphyError, and a returned message must re-encode and be a decode fixpoint",TB+"; step/memory budgets are committed constants (about 40x the worst intact decode)","deterministic simulation with fault injection: stored-message link faults (truncation, extension, bit flips, control-word corruption, random replacement) x simulated clock (line events) x memory meter","sim-link-py","3/C06")
O = "deterministic simulation: the schedule is the order in which definitions reach the compiler; seeded permutations of an acyclic definition set rendered as isar XML, real parser + topological_sort + model + Python generator under a step clock"
chk("C15","exploration","seeded search over (definition graph, permutation) pairs: output is a permutation of the input names, every definition after what it needs (relation computed from the AST), generated module imports, layouts equal the reference and each other, sort stays within the step budget",TB,O,"sim-order","3/C15")
chk("C04","exploration","prophyc's model nodes (size, alignment, stiffness) and the generated Python classes' statics are compared with the reference layout for every struct/union in every permutation of S-ORDER and in every world built by S-HIST; every encoding of a fixed type has the static length. The C++ encoded_byte_size constant is compared in the C++ peer arm",TB,O+"; plus the layout invariant evaluated at world construction of the history simulation","sim-order","3/C04")
claimed = set(c["property_id"] for c in checks)
na = [{"property_id": k, "reason": v} for k, v in sorted(NA.items())]
for pid in ["C03","C04","C05","C06","C07","C12","C13","C15","C16","C20"]:
    if pid not in claimed:
        na.append({"property_id": pid, "reason": "check under construction in this round (simulation designed in DESIGN.md, not yet built); will be claimed when its check exists"})
m = {"version": 1, "setup_cmd": "./setup",
 "hooks": {"guard": "PROPHY_VERIF", "enable": "no source hook exists: every seam is a module global of prophyc replaced from outside (sim/fs.py) or a harness-supplied argument", "baseline_off_cmd": "cd /repo && /venv/bin/python -m pytest -ra -q -p no:cacheprovider --timeout=900 --continue-on-collection-errors", "source_commits": [], "add_only": True},
 "engines": [{"name": "sim-order", "path": "props/order.py", "serves_properties": ["C15","C04"], "kind_free_text": "definition-order simulation: permutations of isar definition sets through the real compiler"}, {"name": "sim-link-py", "path": "props/linkpy.py", "serves_properties": ["C06"], "kind_free_text": "fault-injecting link between reference encoder and the real Python decoder under a step clock"}, {"name": "sim-hist", "path": "props/pymsg.py", "serves_properties": ["C01","C02","C10","C11","C18","C19"], "kind_free_text": "seeded history simulation of the Python message API against a reference model"}],
 "checks": checks, "not_applicable": sorted(na, key=lambda x: x["property_id"]),
 "notes": "VERIF_SEED selects the seed (default 0); ./check <id> --replay <file> re-executes a minimised plan; exit 2 = HARNESS-ERROR"}
json.dump(m, open("/verif/MANIFEST.json","w"), indent=1)
