"""The byte examples printed in docs/encoding.rst, transcribed by hand; the reference model (refmodel/) must
reproduce every one of them. This is what pins the trusted base of almost every check."""
import os
import sys

VERIF = os.path.dirname(os.path.dirname(os.path.abspath(__file__)))
if VERIF not in sys.path:
    sys.path.insert(0, VERIF)

from refmodel import types as rt, wire, text   # noqa: E402


def M(name, type_, arr=None, n=None, sizer=None, opt=False):
    d = {"name": name, "type": type_, "arr": arr, "opt": opt}
    if n is not None:
        d["n"], d["ntext"] = n, str(n)
    if sizer:
        d["sizer"] = sizer
    return d


def S(name, *members):
    return {"k": "struct", "name": name, "members": list(members)}


def U(name, *arms):
    return {"k": "union", "name": name, "arms": [{"disc": d, "type": t, "name": n} for d, t, n in arms]}


def hx(s):
    return bytes.fromhex(s.replace("[", "").replace("]", "").replace(" ", ""))


NUM = [("u8", "2a", "2a"), ("i8", "2a", "2a"), ("u16", "2a 00", "00 2a"), ("i16", "2a 00", "00 2a"),
       ("u32", "2a 00 00 00", "00 00 00 2a"), ("i32", "2a 00 00 00", "00 00 00 2a"),
       ("u64", "2a 00 00 00 00 00 00 00", "00 00 00 00 00 00 00 2a"),
       ("i64", "2a 00 00 00 00 00 00 00", "00 00 00 00 00 00 00 2a"),
       ("r32", "00 00 28 42", "42 28 00 00"), ("r64", "00 00 00 00 00 00 45 40", "40 45 00 00 00 00 00 00")]

FIXTURES = [
    # (title, defs, type, tree, little-endian hex)
    ("fixed array", [S("X", M("x", "u16", "fixed", 4))], "X", {"x": [1, 2, 3, 4]}, "01 00 02 00 03 00 04 00"),
    ("dynamic array", [S("X", M("x", "u16", "dynamic"))], "X", {"x": [1, 2]}, "02 00 00 00 01 00 02 00"),
    ("limited array", [S("X", M("x", "u16", "limited", 4))], "X", {"x": [1, 2]}, "02 00 00 00 01 00 02 00 00 00 00 00"),
    ("greedy array", [S("X", M("x", "u16", "greedy"))], "X", {"x": [1, 2]}, "01 00 02 00"),
    ("externally sized arrays", [S("X", M("size", "u8"), M("x", "u8", "ext", sizer="size"), M("y", "u16", "ext", sizer="size"))],
     "X", {"x": [4, 5], "y": [6, 7]}, "02 04 05 00 06 00 07 00"),
    ("optional set", [S("X", M("x", "u32", opt=True))], "X", {"x": 1}, "01 00 00 00 01 00 00 00"),
    ("optional not set", [S("X", M("x", "u32", opt=True))], "X", {"x": None}, "00 00 00 00 00 00 00 00"),
    ("struct", [S("Nested", M("n1", "u16"), M("n2", "u16")), S("X", M("x", "Nested"), M("y", "u32"))], "X",
     {"x": {"n1": 1, "n2": 2}, "y": 3}, "01 00 02 00 03 00 00 00"),
    ("union first arm", [S("TwoInts", M("a1", "u16"), M("a2", "u16")), U("X", (0, "u32", "x"), (1, "TwoInts", "y"))], "X",
     {"@arm": "x", "v": 1}, "00 00 00 00 01 00 00 00"),
    ("union second arm", [S("TwoInts", M("a1", "u16"), M("a2", "u16")), U("X", (0, "u32", "x"), (1, "TwoInts", "y"))], "X",
     {"@arm": "y", "v": {"a1": 2, "a2": 3}}, "01 00 00 00 02 00 03 00"),
    ("integer padding", [S("X", M("a", "u8"), M("b", "u16"))], "X", {"a": 1, "b": 2}, "01 [00] 02 00"),
    ("composite padding", [S("Nested", M("n1", "u16"), M("n2", "u32"), M("n3", "u16")),
                           S("X", M("x", "u64"), M("y", "u32"), M("z", "u8"), M("n", "Nested"))], "X",
     {"x": 1, "y": 2, "z": 3, "n": {"n1": 4, "n2": 5, "n3": 6}},
     "01 00 00 00 00 00 00 00 02 00 00 00 03 [00 00 00] 04 00 [00 00] 05 00 00 00 06 00 [00 00][00 00 00 00]"),
    ("dynamic array padding 1", [S("X", M("x", "u8", "dynamic"), M("y", "u8", "dynamic"))], "X", {"x": [1], "y": [2, 3, 4]},
     "01 00 00 00 01 [00 00 00] 03 00 00 00 02 03 04 [00]"),
    ("dynamic array padding 2", [S("X", M("x", "u8", "dynamic"), M("y", "u8", "dynamic"))], "X", {"x": [], "y": [1, 2, 3, 4]},
     "00 00 00 00 04 00 00 00 01 02 03 04"),
    ("u64 array padding", [S("X", M("x", "u64", "dynamic"))], "X", {"x": [1]}, "01 00 00 00 [00 00 00 00] 01 00 00 00 00 00 00 00"),
    ("u64 empty array padding", [S("X", M("x", "u64", "dynamic"))], "X", {"x": []}, "00 00 00 00 [00 00 00 00]"),
    ("optional padding 1", [S("X", M("x", "u8", opt=True), M("y", "u8"))], "X", {"x": 1, "y": 2}, "01 00 00 00 01 02 [00 00]"),
    ("optional padding 2", [S("X", M("x", "u64", opt=True))], "X", {"x": 1}, "01 00 00 00 [00 00 00 00] 01 00 00 00 00 00 00 00"),
    ("union padding 1", [U("X", (1, "u8", "x"))], "X", {"@arm": "x", "v": 2}, "01 00 00 00 02 [00 00 00]"),
    ("union padding 2", [U("X", (1, "u64", "x"), (2, "u8", "y"))], "X", {"@arm": "x", "v": 2},
     "01 00 00 00 [00 00 00 00] 02 00 00 00 00 00 00 00"),
    ("union padding 3", [U("X", (1, "u64", "x"), (2, "u8", "y"))], "X", {"@arm": "y", "v": 3},
     "02 00 00 00 [00 00 00 00] 03 [00 00 00 00 00 00 00]"),
    ("fields following dynamic fields", [S("X", M("a", "u8", "dynamic"), M("b", "u8"), M("c", "u32"), M("d", "u8", "dynamic"),
                                          M("e", "u8"), M("f", "u64"))], "X",
     {"a": [1], "b": 2, "c": 3, "d": [4], "e": 5, "f": 6},
     "01 00 00 00 01 [00 00 00] 02 [00 00 00] 03 00 00 00 01 00 00 00 04 [00 00 00] 05 [00 00 00 00 00 00 00] "
     "06 00 00 00 00 00 00 00"),
]

TEXT_FIXTURES = [
    # docs/python_codec.rst
    ([S("Test2", M("a", "u32"))], "Test2", {"a": 42}, "a: 42\n"),
    ([S("Test2", M("a", "u32")), S("Test5", M("a", "Test2", "dynamic"))], "Test5", {"a": [{"a": 42}, {"a": 42}]},
     "a {\n  a: 42\n}\na {\n  a: 42\n}\n"),
]


def main():
    bad = 0
    n = 0
    for name, le, be in NUM:
        R = rt.Resolved({"defs": [S("X", M("x", name))]})
        for e, want in (("<", le), (">", be)):
            got = wire.encode(R.types["X"], {"x": 42 if not name.startswith("r") else 42.0}, e)
            n += 1
            if got != hx(want):
                bad += 1
                print("fixture numeric %s %s: got %s want %s" % (name, e, got.hex(), want))
    R = rt.Resolved({"defs": [{"k": "enum", "name": "E", "members": [["E_A", 42]]}, S("X", M("x", "E"))]})
    for e, want in (("<", "2a 00 00 00"), (">", "00 00 00 2a")):
        n += 1
        if wire.encode(R.types["X"], {"x": 42}, e) != hx(want):
            bad += 1
            print("fixture enum %s" % e)
    for title, defs, tname, tree, want in FIXTURES:
        R = rt.Resolved({"defs": defs})
        got, m = wire.encode(R.types[tname], tree, "<", with_map=True)
        wire.check_map(got, m)
        n += 1
        if got != hx(want):
            bad += 1
            print("fixture %r: got %s want %s" % (title, got.hex(), hx(want).hex()))
        # the bracketed bytes of the documentation are exactly the ranges the map calls padding
        marks = []
        pos = 0
        inb = False
        for tok in want.replace("[", " [ ").replace("]", " ] ").split():
            if tok == "[":
                inb = True
            elif tok == "]":
                inb = False
            else:
                marks.append(inb)
                pos += 1
        pad = [False] * len(got)
        for s, e2, kind, w, path, info in m:
            if kind == "padding":
                for i in range(s, e2):
                    pad[i] = True
        if "[" in want and pad != marks:
            bad += 1
            print("fixture %r: padding map %s differs from the documentation's brackets %s" % (title, pad, marks))
        be = wire.encode(R.types[tname], tree, ">")
        if wire.compare_orders(got, be, m):
            bad += 1
            print("fixture %r: byte-order relation fails on the reference itself" % title)
    for defs, tname, tree, want in TEXT_FIXTURES:
        R = rt.Resolved({"defs": defs})
        n += 1
        if text.render(R.types[tname], tree) != want:
            bad += 1
            print("text fixture %s: %r" % (tname, text.render(R.types[tname], tree)))
    if bad:
        print("HARNESS-ERROR: %d of %d documentation fixtures not reproduced by the reference model" % (bad, n))
        return 2
    print("selftest-fixtures: %d documentation examples reproduced by the reference model" % n)
    return 0


if __name__ == "__main__":
    sys.exit(main())
