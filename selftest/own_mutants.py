"""Own sensitivity mutants (DESIGN.md appendix C): each is a single textual replacement against a scratch worktree of
/repo. `python selftest/own_mutants.py [name-filter]` applies each one, runs the pinned suite (a mutant that fails the
suite is reported and skipped) and the quick check of the targeted property with VERIF_REPO=<scratch>."""
import os
import shutil
import subprocess
import sys
import tempfile

M = [
    ("C01-opt-flagpad4", "prophy/descriptor.py", ".ljust(type_._OPTIONAL_ALIGNMENT, b'\\x00') +", ".ljust(4, b'\\x00') +", "C01"),
    ("C01-limited-noljust", "prophy/container.py",
     "return b\"\".join(self._TYPE._encode(value, endianness) for value in self).ljust(self._SIZE, b\"\\x00\")",
     "return b\"\".join(self._TYPE._encode(value, endianness) for value in self)", "C01"),
    ("C02-bound-decode-size", "prophy/container.py",
     "        self[:], size = decode_scalar_array(self._TYPE, data, pos, endianness, len_hint)\n        return max(size, self._SIZE)",
     "        self[:], size = decode_scalar_array(self._TYPE, data, pos, endianness, len_hint)\n        return size", "C02"),
    ("C02-union-armpos", "prophy/composite.py", "data, pos + self._ALIGNMENT, endianness, {})", "data, pos + 4, endianness, {})", "C02"),
    ("C03-union-discpad", "prophyc/generators/cpp_full.py",
     "            (discpad and 'pos = pos + {0};\\n'.format(discpad) or '') +\n            'switch (x.discriminator)\\n' +\n            '{\\n' +\n            ''.join('    ' + gen_case(m) for m in node.members) +\n            '}\\n' +\n            'pos = pos + {0};\\n'.format(node.byte_size - DISC_SIZE - discpad)",
     "            'switch (x.discriminator)\\n' +\n            '{\\n' +\n            ''.join('    ' + gen_case(m) for m in node.members) +\n            '}\\n' +\n            'pos = pos + {0};\\n'.format(node.byte_size - DISC_SIZE)", "C03"),
    ("C04-union-align", "prophyc/model.py",
     "node_.alignment = max(DISC_SIZE, node_.members and max(x.alignment for x in node_.members) or 1)",
     "node_.alignment = DISC_SIZE", "C04"),
    ("C05-gbs-lastpad", "prophyc/generators/cpp_full.py", "bytes_ += m.byte_size + max(m.padding, 0)",
     "bytes_ += m.byte_size + (max(m.padding, 0) if m is not node.members[-1] else 0)", "C05"),
    ("C06-bytes-nocheck", "prophy/composite.py",
     "            elif bound:\n                if (len(data) - pos) < len_hint:\n                    raise ProphyError(\"too few bytes to decode string\")\n",
     "            elif bound:\n", "C06"),
    ("C06-numeric-le", "prophy/scalar.py", "        if (len(data) - pos) < size:\n            raise ProphyError(\"too few bytes to decode integer\")",
     "        if (len(data) - pos) <= size - 2:\n            raise ProphyError(\"too few bytes to decode integer\")", "C06"),
    ("C07-advance-nocheck", "prophy_cpp/include/prophy/detail/decoder.hpp",
     "inline bool do_decode_advance(size_t n, const uint8_t*& pos, const uint8_t* end)\n{\n    if (size_t(end - pos) < n)\n    {\n        return false;\n    }\n",
     "inline bool do_decode_advance(size_t n, const uint8_t*& pos, const uint8_t* end)\n{\n", "C07"),
    ("C07-limit-plus2", "prophy_cpp/include/prophy/detail/decoder.hpp", "    if (n > max)\n", "    if (n >= max + 2)\n", "C07"),
    ("C10-insert-nolimit", "prophy/container.py",
     "    def insert(self, idx, value):\n        value = self._TYPE._check(value)\n        if self._max_len and len(self) == self._max_len:\n            raise ProphyError(\"exceeded array limit\")\n",
     "    def insert(self, idx, value):\n        value = self._TYPE._check(value)\n", "C10"),
    ("C10-disc-keepfields", "prophy/generators.py",
     "                        self._discriminated = field\n                        self._fields = {}\n",
     "                        self._discriminated = field\n", "C10"),
    ("C11-alias", "prophy/composite.py",
     "        elif codec_kind.is_composite(type(rhs)):\n            lhs.copy_from(rhs)\n",
     "        elif codec_kind.is_composite(type(rhs)):\n            self._fields[name] = rhs\n", "C11"),
    ("C12-unlimited-notlast", "prophyc/parsers/prophy.py",
     "                not member.greedy and member.kind != model.Kind.UNLIMITED,\n                \"greedy array field '{}' not last\"",
     "                not member.greedy,\n                \"greedy array field '{}' not last\"", "C12"),
    ("C13-zerodiv", "prophyc/parsers/prophy.py", "        except ZeroDivisionError:\n            self._parser_error(\n                'division by zero',",
     "        except ZeroDivisionErrorX:\n            self._parser_error(\n                'division by zero',", "C13"),
    ("C15-find-plus2", "prophyc/model.py", "found_index = find_first_dep(dep, index + 1)", "found_index = find_first_dep(dep, index + 2)", "C15"),
    ("C16-cache-aswritten", "prophyc/file_processor.py", "        abspath = os.path.abspath(path)\n", "        abspath = path\n", "C16"),
    ("C16-swap-norestore", "prophyc/file_processor.py", "    finally:\n        dirs[0] = tmp\n", "    finally:\n        pass\n", "C16"),
    ("C16-reversed-dirs", "prophyc/file_processor.py", "    for directory in dirs:\n", "    for directory in reversed(dirs):\n", "C16"),
    ("C18-enum-first-number", "prophy/composite.py",
     "        return \"%s: %s\\n\" % (name, type_._int_to_name[value])",
     "        return \"%s: %s\\n\" % (name, type_._int_to_name[value] if value != type_._DEFAULT or len(type_._int_to_name) < 3 else int(value))", "C18"),
    ("C19-2byte-endian", "prophy/scalar.py", "        return struct.pack(endianness + id_, value)",
     "        return struct.pack((endianness if size != 2 or value < 256 else '<') + id_, value)", "C19"),
    ("C20-unsorted-include", "prophyc/generators/python.py",
     "included = list(sorted(n.name for n in include.defined_symbols() if n.name not in self.included_symbols))",
     "included = list(set(n.name for n in include.defined_symbols() if n.name not in self.included_symbols))", "C20"),
]


def main():
    flt = sys.argv[1] if len(sys.argv) > 1 else ""
    verif = os.path.dirname(os.path.dirname(os.path.abspath(__file__)))
    for name, path, old, new, prop in M:
        if flt and flt not in name:
            continue
        scratch = tempfile.mkdtemp(prefix="verif-own-", dir="/dev/shm")
        tree = scratch + "/repo"
        try:
            subprocess.check_call(["git", "-C", "/repo", "worktree", "add", "-q", "--detach", tree, "HEAD"])
            p = os.path.join(tree, path)
            s = open(p).read()
            if old not in s:
                print("%s: pattern not found" % name)
                continue
            open(p, "w").write(s.replace(old, new, 1))
            t = subprocess.run(["/venv/bin/python", "-m", "pytest", "-q", "-p", "no:cacheprovider", "-x"], cwd=tree,
                               stdout=subprocess.PIPE, stderr=subprocess.STDOUT)
            suite = t.stdout.decode().strip().split("\n")[-1]
            if t.returncode != 0:
                print("%s: pinned suite fails with it (%s) - not a valid mutant" % (name, suite))
                continue
            c = subprocess.run([os.path.join(verif, "check"), prop, "--tier", "quick"], env=dict(os.environ, VERIF_REPO=tree),
                               stdout=subprocess.PIPE, stderr=subprocess.STDOUT)
            out = c.stdout.decode("utf-8", "replace")
            v = [ln for ln in out.split("\n") if ln.startswith("violation class")]
            print("%s: suite ok; check %s exit %d %s" % (name, prop, c.returncode, (v[0][:170] if v else out.strip().split("\n")[-1][:170])))
            sys.stdout.flush()
        finally:
            subprocess.call(["git", "-C", "/repo", "worktree", "remove", "--force", tree])
            shutil.rmtree(scratch, ignore_errors=True)


if __name__ == "__main__":
    main()
