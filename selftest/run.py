"""Self-tests of the machinery.

selftest-determinism  every simulation, N run indices: executed with 16 workers, with 1 worker, and in a fresh
                      interpreter under another PYTHONHASHSEED; the event-log digests must agree.
selftest-mutants      every patch under seeded/*/patch.diff and selftest/mutants/*.diff is applied to a scratch copy of
                      the repository (never to /repo); the quick check of the property it targets must report a
                      VIOLATION, and must be quiet again on the unchanged tree.
selftest-fixtures     the reference model reproduces the byte examples of docs/encoding.rst.
"""
import json
import os
import shutil
import subprocess
import sys
import tempfile

VERIF = os.path.dirname(os.path.dirname(os.path.abspath(__file__)))

SIMS = [("C10", 0, 300), ("C06", 0, 40), ("C15", 0, 150), ("C16", 0, 60), ("C13", 0, 300), ("C12", 0, 200),
        ("C20", 0, 6), ("C07", 0, 6)]


def _digest(prop, arm_index, n, workers):
    from props import registry
    from sim import runner
    spec = registry.get(prop)
    arm = spec["arms"][arm_index]
    r = runner.run_arm(arm, prop, int(os.environ.get("VERIF_SEED", "0") or 0), n, spec.get("armed") or {prop}, workers)
    if r["harness"]:
        raise RuntimeError("harness error in %s: %s" % (prop, r["harness"][0][1]))
    return r["digest"]


def determinism(args):
    bad = 0
    for prop, arm_index, n in SIMS:
        a = _digest(prop, arm_index, n, 16)
        b = _digest(prop, arm_index, n, 1)
        env = dict(os.environ, PYTHONHASHSEED="12345")
        code = ("import sys; sys.path.insert(0, %r); sys.path.insert(0, %r); from selftest import run; "
                "print('DIGEST', run._digest(%r, %d, %d, 4))" % (VERIF, os.environ.get("VERIF_REPO", "/repo"), prop, arm_index, n))
        p = subprocess.run([sys.executable, "-s", "-B", "-c", code], env=env, stdout=subprocess.PIPE,
                           stderr=subprocess.PIPE, timeout=3000)
        c = ""
        for ln in p.stdout.decode().split("\n"):
            if ln.startswith("DIGEST "):
                c = ln.split()[1]
        ok = a == b == c
        print("determinism %s arm %d, %d runs: 16 workers %s | 1 worker %s | fresh interpreter PYTHONHASHSEED=12345 %s -> %s" %
              (prop, arm_index, n, a[:12], b[:12], c[:12], "same" if ok else "DIFFERENT"))
        if not ok:
            bad += 1
            print(p.stderr.decode()[-500:])
    if bad:
        print("HARNESS-ERROR: %d simulations are not deterministic" % bad)
        return 2
    print("selftest-determinism: all event-log digests agree")
    return 0


def mutants(args):
    patches = []
    sd = os.path.join(VERIF, "seeded")
    for d in sorted(os.listdir(sd)) if os.path.isdir(sd) else []:
        p = os.path.join(sd, d, "patch.diff")
        m = os.path.join(sd, d, "meta.json")
        if os.path.exists(p) and os.path.exists(m):
            meta = json.load(open(m))
            if meta.get("missed"):
                print("selftest-mutants: %s is a documented miss (%s)" % (d, meta["missed"]))
                continue
            patches.append((d, p, meta.get("caught_by") or [meta["property"]]))
    only = os.environ.get("VERIF_ONLY")
    failed = 0
    for name, patch, props in patches:
        if only and not any(o and o in name for o in only.split(",")):
            continue
        scratch = tempfile.mkdtemp(prefix="verif-mut-", dir="/dev/shm" if os.path.isdir("/dev/shm") else None)
        try:
            subprocess.check_call(["git", "-C", "/repo", "worktree", "add", "-q", "--detach", scratch + "/repo", "HEAD"])
            tree = scratch + "/repo"
            r = subprocess.run(["git", "-C", tree, "apply", patch], stderr=subprocess.PIPE)
            if r.returncode != 0:
                print("mutant %s: patch does not apply: %s" % (name, r.stderr.decode()[:200]))
                failed += 1
                continue
            caught = False
            for prop in props:
                env = dict(os.environ, VERIF_REPO=tree)
                p = subprocess.run([os.path.join(VERIF, "check"), prop, "--tier", "quick"], env=env,
                                   stdout=subprocess.PIPE, stderr=subprocess.STDOUT, timeout=3000)
                out = p.stdout.decode("utf-8", "replace")
                v = [ln for ln in out.split("\n") if ln.startswith("VIOLATION")]
                print("mutant %s vs %s: exit %d %s" % (name, prop, p.returncode, v[0] if v else "(no violation)"))
                if p.returncode == 1 and v:
                    caught = True
                    break
            if not caught:
                failed += 1
        finally:
            subprocess.call(["git", "-C", "/repo", "worktree", "remove", "--force", scratch + "/repo"])
            shutil.rmtree(scratch, ignore_errors=True)
    if failed:
        print("selftest-mutants: %d of %d seeded changes NOT caught" % (failed, len(patches)))
        return 1
    print("selftest-mutants: all %d seeded changes caught" % len(patches))
    return 0


def fixtures(args):
    from selftest import fixtures as fx
    return fx.main()


def main(name, args, seed):
    if name == "selftest-determinism":
        return determinism(args)
    if name == "selftest-mutants":
        return mutants(args)
    if name == "selftest-fixtures":
        return fixtures(args)
    print("HARNESS-ERROR: unknown selftest %s" % name)
    return 2
