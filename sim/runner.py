"""Seeded search driver shared by all simulations.

run index i of a check  ->  tape = Tape(mix(VERIF_SEED, sim, prop, i))  ->  plan  ->  execution  ->  verdict
Work is sharded over a fork pool; results are merged in run-index order, so stdout, evidence and the choice of
the reported violation do not depend on the worker count.
"""
import collections
import concurrent.futures
import copy
import faulthandler
import hashlib
import json
import multiprocessing
import signal
import os
import sys
import time
import traceback

from .tape import Tape, mix_seed
from . import shrink

VERIF = os.path.dirname(os.path.dirname(os.path.abspath(__file__)))
KNOWN_FILE = os.path.join(VERIF, "known_findings.json")


def load_known():
    try:
        with open(KNOWN_FILE) as f:
            data = json.load(f)
    except FileNotFoundError:
        return []
    return [e for e in data.get("findings", []) if e.get("status") == "known"]


def known_entry(known, prop, class_key):
    for e in known:
        if e["property"] != prop:
            continue
        k = e["class_key"]
        if k == class_key or (k.endswith("*") and class_key.startswith(k[:-1])):
            return e
    return None


PER_RUN_WALL_GUARD = 600


class WallGuard(BaseException):
    pass


class Arm(object):
    """one simulation arm of a check"""

    def __init__(self, sim, name, runs_quick, runs_thorough, label=None):
        self.sim = sim
        self.name = name
        self.runs = {"quick": runs_quick, "thorough": runs_thorough}
        self.label = label or name


def _run_chunk(args):
    simmod, simname, prop, seed, indices, armed, want_samples = args
    import importlib
    sim = importlib.import_module(simmod)
    faulthandler.dump_traceback_later(3000, exit=True)
    agg = {
        "stats": collections.Counter(), "probes": collections.Counter(), "states": set(), "violations": [],
        "soft": {}, "digests": [], "samples": [], "harness": [], "nontrivial": 0, "runs": 0, "faults": collections.Counter(),
        "steps": 0,
    }
    def _wall(signum, frame):
        raise WallGuard("run exceeded the per-run wall-clock guard")
    signal.signal(signal.SIGALRM, _wall)
    for i in indices:
        tape = Tape(mix_seed(seed, simname, prop, i))
        try:
            signal.alarm(PER_RUN_WALL_GUARD)
            plan = sim.make_plan(tape, prop)
            res = sim.execute(plan, armed)
            signal.alarm(0)
        except WallGuard:
            # never a verdict: the simulated clock should have fired long before; reported as the machinery's failure
            agg["harness"].append((i, "per-run wall-clock guard (%d s) hit in run %d" % (PER_RUN_WALL_GUARD, i)))
            continue
        except Exception:
            signal.alarm(0)
            agg["harness"].append((i, traceback.format_exc()))
            continue
        agg["runs"] += 1
        agg["stats"].update(res.get("stats", {}))
        agg["probes"].update(res.get("probes", {}))
        agg["faults"].update(res.get("faults", {}))
        # 64-bit digests instead of the strings: thorough tiers merge millions of them (the count of distinct items is
        # what is reported; hash() is deterministic because ./check pins PYTHONHASHSEED)
        agg["states"].update(hash(x) for x in res.get("states", ()))
        agg["steps"] += res.get("steps", 0)
        agg["digests"].append((i, res.get("digest", "")))
        if res.get("nontrivial"):
            agg["nontrivial"] += 1
            if len(agg["samples"]) < want_samples and res.get("sample") is not None:
                agg["samples"].append({"run_index": i, "case": res["sample"]})
        if res.get("violation"):
            agg["violations"].append((i, res["violation"], list(tape.record)))
        for s in res.get("soft", ()):
            k = s["class_key"]
            if k not in agg["soft"]:
                agg["soft"][k] = [0, i, s]
            agg["soft"][k][0] += 1
    signal.alarm(0)
    faulthandler.cancel_dump_traceback_later()
    agg["stats"] = dict(agg["stats"])
    agg["probes"] = dict(agg["probes"])
    agg["faults"] = dict(agg["faults"])
    return agg


def run_arm(arm, prop, seed, nruns, armed, workers, first_index=0, want_samples=2):
    indices = list(range(first_index, first_index + nruns))
    nchunks = max(1, min(len(indices), workers * 4))
    chunks = [indices[k::nchunks] for k in range(nchunks)]
    jobs = [(arm.sim.__name__, arm.name, prop, seed, c, armed, want_samples) for c in chunks if c]
    out = []
    if workers <= 1:
        for j in jobs:
            out.append(_run_chunk(j))
    else:
        ctx = multiprocessing.get_context("fork")
        with concurrent.futures.ProcessPoolExecutor(max_workers=workers, mp_context=ctx) as ex:
            for r in ex.map(_run_chunk, jobs):
                out.append(r)
    merged = {
        "stats": collections.Counter(), "probes": collections.Counter(), "states": set(), "violations": [],
        "soft": {}, "samples": [], "harness": [], "nontrivial": 0, "runs": 0, "faults": collections.Counter(),
        "steps": 0,
    }
    digests = []
    for r in out:
        merged["stats"].update(r["stats"])
        merged["probes"].update(r["probes"])
        merged["faults"].update(r["faults"])
        merged["states"] |= r["states"]
        merged["violations"] += r["violations"]
        merged["harness"] += r["harness"]
        merged["nontrivial"] += r["nontrivial"]
        merged["runs"] += r["runs"]
        merged["steps"] += r["steps"]
        merged["samples"] += r["samples"]
        digests += r["digests"]
        for k, (n, i, s) in r["soft"].items():
            if k not in merged["soft"]:
                merged["soft"][k] = [0, i, s]
            merged["soft"][k][0] += n
            if i < merged["soft"][k][1]:
                merged["soft"][k][1], merged["soft"][k][2] = i, s
    merged["violations"].sort(key=lambda x: x[0])
    merged["harness"].sort(key=lambda x: x[0])
    merged["samples"].sort(key=lambda x: x["run_index"])
    merged["samples"] = merged["samples"][:want_samples]
    h = hashlib.sha1()
    for i, d in sorted(digests):
        h.update(("%d:%s;" % (i, d)).encode())
    merged["digest"] = h.hexdigest()
    return merged


def minimise(arm, prop, armed, tape_list, violation, budget_s=40.0):
    """-> minimised plan (explicit JSON). The violation class (property + class key) is preserved."""
    sim = arm.sim
    key = (violation["property"], violation["class_key"])

    # wall-clock cap for the whole minimisation of one class (it shapes the replay file only, never the verdict): every
    # candidate of a hang class runs to the full step budget, and schema simplification alone may try 100+ candidates
    deadline = time.time() + 4 * budget_s

    def same(plan):
        if time.time() > deadline:
            return False
        res = sim.execute(plan, armed)
        v = res.get("violation")
        return bool(v) and (v["property"], v["class_key"]) == key

    def derive(lst):
        return sim.make_plan(Tape(replay=lst), prop)

    plan0 = derive(tape_list)
    if not same(plan0):
        return plan0, {"reproducible": False}
    best_tape, plan, n1 = shrink.shrink_tape(tape_list, derive, same, budget_s=budget_s * 0.4, max_exec=250)
    n2 = 0
    for field in getattr(sim, "LIST_FIELDS", ()):
        if isinstance(plan.get(field), list) and plan[field]:
            plan, k = shrink.shrink_list_field(plan, field, same, budget_s=budget_s * 0.2)
            n2 += k
    if hasattr(sim, "simplify_plan"):
        plan = sim.simplify_plan(plan, same)
    return plan, {"reproducible": True, "tape_len_before": len(tape_list), "tape_len_after": len(best_tape),
                  "tape": best_tape, "executions": n1 + n2}


def write_replay(prop, arm, seed, index, plan, violation, info, trace):
    d = os.path.join(VERIF, "replays")
    os.makedirs(d, exist_ok=True)
    safe = "".join(c if c.isalnum() or c in "-_." else "_" for c in violation["class_key"])[:80]
    path = os.path.join(d, "%s-%s-%d-%d.json" % (prop, safe, seed, index))
    with open(path, "w") as f:
        json.dump({"property": prop, "sim": arm.name, "seed": seed, "run_index": index, "violation": violation,
                   "minimisation": {k: v for k, v in info.items() if k != "tape"}, "tape": info.get("tape"),
                   "trace": trace, "plan": plan}, f, indent=1, sort_keys=True, default=_json_default)
    return path


def _json_default(o):
    if isinstance(o, bytes):
        return {"@bytes": o.hex()}
    if isinstance(o, (set, frozenset)):
        return sorted(o)
    return repr(o)


def replay(arms, prop, path, armed):
    with open(path) as f:
        data = json.load(f)
    arm = next(a for a in arms if a.name == data["sim"])
    res = arm.sim.execute(data["plan"], armed)
    v = res.get("violation")
    print("replay of %s (sim %s, seed %s, run %s)" % (path, data["sim"], data.get("seed"), data.get("run_index")))
    for line in res.get("trace", []):
        print("  " + line)
    if not v and res.get("soft"):
        v = res["soft"][0]
    if v:
        want = data.get("violation", {})
        same = (v["property"], v["class_key"]) == (want.get("property"), want.get("class_key"))
        print("violation: %s" % json.dumps(v, sort_keys=True, default=_json_default))
        print("event-log digest: %s" % res.get("digest"))
        if not same:
            print("NOTE: class differs from the recorded one (%s)" % want.get("class_key"))
        print("VIOLATION property=%s replay=%s" % (v["property"], path))
        return 1
    print("no violation reproduced")
    return 0


def run_check(prop, arms, level, tier, seed, workers, rule, assumptions, real_stub, armed=None,
              runs_override=None, extra_coverage=None, expected_probes=()):
    """Run all arms of one property's check; print verdict lines; write evidence. -> exit code"""
    t0 = time.time()
    armed = armed or {prop}
    known = load_known()
    total = {"runs": 0, "nontrivial": 0, "states": 0, "steps": 0}
    stats, probes, faults = collections.Counter(), collections.Counter(), collections.Counter()
    samples, arm_reports, digests = [], [], []
    new_violations = []       # (arm, index, violation, tape)
    known_hits = collections.OrderedDict()
    harness = []
    for arm in arms:
        n = runs_override if runs_override is not None else arm.runs[tier]
        if n <= 0:
            continue
        ta = time.time()
        r = run_arm(arm, prop, seed, n, armed, workers)
        total["runs"] += r["runs"]
        total["nontrivial"] += r["nontrivial"]
        total["states"] += len(r["states"])
        total["steps"] += r["steps"]
        stats.update({"%s.%s" % (arm.label, k): v for k, v in r["stats"].items()})
        probes.update(r["probes"])
        faults.update(r["faults"])
        samples += [dict(s, arm=arm.label) for s in r["samples"]]
        digests.append(r["digest"])
        harness += [(arm.label, i, tb) for i, tb in r["harness"]]
        arm_reports.append({"arm": arm.label, "runs": r["runs"], "nontrivial_runs": r["nontrivial"],
                            "distinct": len(r["states"]), "wall_s": round(time.time() - ta, 2), "digest": r["digest"]})
        for i, v, tape in r["violations"]:
            if v["property"] not in armed:
                continue
            e = known_entry(known, v["property"], v["class_key"])
            if e:
                known_hits.setdefault(e["class_key"], [e, 0, v])[1] += 1
            else:
                new_violations.append((arm, i, v, tape))
        for k, (cnt, i, v) in sorted(r["soft"].items()):
            if v["property"] not in armed:
                continue
            e = known_entry(known, v["property"], v["class_key"])
            if e:
                known_hits.setdefault(e["class_key"], [e, 0, v])[1] += cnt
            else:
                new_violations.append((arm, i, v, None))
    code = 0
    for k, (e, cnt, v) in known_hits.items():
        print("KNOWN-FINDING: property=%s %s (%d hits this run) %s" % (e["property"], e["class_key"], cnt, e["what"]))
    reported = []
    if new_violations:
        code = 1
        seen = set()
        for arm, i, v, tape in new_violations:
            ck = (v["property"], v["class_key"])
            if ck in seen:
                continue
            seen.add(ck)
            if len(seen) > 3:
                continue
            if tape is not None:
                plan, info = minimise(arm, prop, armed, tape, v)
            else:
                plan, info = arm.sim.make_plan(Tape(mix_seed(seed, arm.name, prop, i)), prop), {"reproducible": None}
            res = arm.sim.execute(plan, armed)
            v2 = res.get("violation") or (res.get("soft") or [v])[0]
            path = write_replay(prop, arm, seed, i, plan, v2, info, res.get("trace", []))
            print("violation class %s at run %d of arm %s: %s" % (v2["class_key"], i, arm.label, v2["message"][:500]))
            print("VIOLATION property=%s replay=%s" % (v2["property"], path))
            reported.append({"class_key": v2["class_key"], "run_index": i, "replay": path})
        if len(seen) > 3:
            print("(%d further violation classes not minimised: %s)" % (len(seen) - 3, sorted(seen)[3:]))
    if harness:
        code = 2 if code == 0 else code
        for label, i, tb in harness[:3]:
            print("HARNESS-ERROR in arm %s run %d:\n%s" % (label, i, tb))
    wall = time.time() - t0
    cov = {
        "evaluations": total["runs"],
        "distinct_nontrivial": total["states"],
        "rule": rule,
        "samples": samples[:6],
        "arms": arm_reports,
        "nontrivial_runs": total["nontrivial"],
        "runs_per_hour": int(total["runs"] / wall * 3600) if wall > 0 else 0,
        "simulated_steps": total["steps"],
        "fault_kinds_fired": dict(sorted(faults.items())),
        "probes": dict(sorted(probes.items())),
        "probes_at_zero": sorted(p for p in expected_probes if not probes.get(p)),
        "stats": dict(sorted(stats.items())),
        "known_findings_hit": {k: c for k, (e, c, v) in known_hits.items()},
        "violations_reported": reported,
        "real_vs_stub": real_stub,
        "workers": workers,
        "event_log_digests": digests,
        "exhaustive": False,
    }
    if extra_coverage:
        cov.update(extra_coverage)
    ev = {"property_id": prop, "tier": tier, "seed": seed, "level": level, "coverage": cov,
          "assumptions": assumptions, "wall_s": round(wall, 2), "violations": len(reported)}
    evdir = os.path.join(VERIF, "evidence")
    if os.environ.get("VERIF_REPO", "/repo") != "/repo":
        # a scratch tree (sensitivity runs): never overwrite the evidence of the real repository
        evdir = os.path.join(os.environ.get("TMPDIR", "/tmp"), "verif-evidence-scratch")
    os.makedirs(evdir, exist_ok=True)
    with open(os.path.join(evdir, "%s.json" % prop), "w") as f:
        json.dump(ev, f, indent=1, sort_keys=True, default=_json_default)
    print("%s %s: %d runs (%d non-trivial), %d distinct, %d known-finding classes, %d new violation classes, %.1fs" %
          (prop, tier, total["runs"], total["nontrivial"], total["states"], len(known_hits), len(reported), wall))
    return code
