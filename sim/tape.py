"""The choice tape: the single source of nondeterminism of every simulated run.

generation mode: backed by random.Random(seed), every draw recorded
replay mode:     backed by a recorded list; exhausted tape yields 0

0 is always the simplest choice (shortest list, first alternative, no fault),
so that zeroing / deleting spans of a tape yields a simpler, still well-formed plan.
"""
import hashlib
import random


def mix_seed(*parts):
    """Stable 64-bit mix of integers/strings (never uses hash())."""
    h = hashlib.sha256(("/".join(str(p) for p in parts)).encode()).digest()
    return int.from_bytes(h[:8], "big")


class Tape(object):
    __slots__ = ("_rng", "_replay", "_pos", "record")

    def __init__(self, seed=None, replay=None):
        self.record = []
        self._pos = 0
        if replay is not None:
            self._replay = list(replay)
            self._rng = None
        else:
            self._replay = None
            self._rng = random.Random(seed)

    def draw(self, n):
        """integer in [0, n)"""
        # n <= 1 still consumes a slot, so tapes keep their shape under edits
        if self._replay is not None:
            v = self._replay[self._pos] if self._pos < len(self._replay) else 0
            self._pos += 1
            v = v % n if n > 0 else 0
        else:
            v = self._rng.randrange(n) if n > 1 else 0
        self.record.append(v)
        return v

    def chance(self, num, den):
        """True with probability num/den; the all-zero tape says False."""
        return self.draw(den) >= den - num

    def more(self, num=1, den=2, cap=None, have=0):
        """'one more element?' — geometric list length, 0 = stop."""
        if cap is not None and have >= cap:
            return False
        return self.draw(den) >= den - num

    def pick(self, seq):
        return seq[self.draw(len(seq))]

    def weighted(self, weights):
        """index drawn with the given integer weights; index 0 for the zero tape."""
        total = sum(weights)
        v = self.draw(total)
        for i, w in enumerate(weights):
            if v < w:
                return i
            v -= w
        return len(weights) - 1

    def ints(self, k, n):
        return [self.draw(n) for _ in range(k)]
