"""The link between a writer and a reader: a pure function (bytes, fault) -> bytes, and the enumeration of the
faults a stored or transmitted message meets: truncation at any byte, trailing bytes, flipped bits, corrupted
control words (counters, sizers, optional flags, discriminators, enum values), random replacement.

A fault is a JSON-able dict; `apply` never draws.
"""
import random

CTRL_KINDS = ("counter", "sizer", "flag", "discriminator", "enum")


def apply(data, fault):
    k = fault["k"]
    if k == "none":
        return data
    if k == "cut":
        return data[:fault["at"]]
    if k == "extend":
        n = fault["n"]
        if fault["fill"] == "zero":
            return data + b"\x00" * n
        if fault["fill"] == "tail":
            return data + (data[-n:] if data else b"\x00" * n).ljust(n, b"\xee")
        r = random.Random(fault["seed"])
        return data + bytes(r.randrange(256) for _ in range(n))
    if k == "flip":
        b = fault["bit"]
        if b // 8 >= len(data):
            return data
        x = bytearray(data)
        x[b // 8] ^= 1 << (b % 8)
        return bytes(x)
    if k == "ctrl":
        s, w, v = fault["at"], fault["w"], fault["v"] & ((1 << (8 * fault["w"])) - 1)
        x = bytearray(data)
        x[s:s + w] = v.to_bytes(w, "little" if fault["e"] == "<" else "big")
        return bytes(x)
    if k == "random":
        r = random.Random(fault["seed"])
        return bytes(r.randrange(256) for _ in range(fault["n"]))
    if k == "multi":
        for f in fault["faults"]:
            data = apply(data, f)
        return data
    raise ValueError(k)


def ctrl_values(kind, width, limit, known):
    """boundary values for a control word; known = legal discriminators / enumerators"""
    top = (1 << (8 * width)) - 1
    vals = [0, 1, 2, 255, 256, 65535, 65536, 65537, 1 << 31, top, top - 1]
    # counts whose product with an element size of 2, 4 or 8 wraps around the word (and around 64 bits)
    bits = 8 * width
    vals += [1 << (bits - 1), (1 << (bits - 1)) + 1, 1 << (bits - 2), (1 << (bits - 2)) + 1, (1 << (bits - 3)) + 1]
    if limit is not None:
        vals += [limit, limit + 1]
    if known:
        bad = 0
        while bad in known:
            bad += 1
        vals += [bad] + sorted(known)[:3]
    if kind == "flag":
        vals = [0, 1, 2, 255, 256, 1 << 31, top]
    out = []
    for v in vals:
        v &= top
        if v not in out:
            out.append(v)
    return out


def enumerate_faults(data, wmap, e, seed, max_len_all_prefixes=256, max_len_all_flips=32, nsample=64,
                     pair_share=10, max_ctrl=400):
    """All faults applied to one intact encoding. Deterministic function of its arguments."""
    r = random.Random(seed)
    n = len(data)
    faults = []
    # every prefix (or a boundary-biased sample)
    if n <= max_len_all_prefixes:
        cuts = list(range(n))
    else:
        bounds = set()
        for s, en, kind, w, path, _info in wmap:
            bounds.update((s - 1, s, s + 1, en - 1))
        cuts = sorted(c for c in bounds if 0 <= c < n)
        if len(cuts) > nsample:
            cuts = sorted(r.sample(cuts, nsample))
        cuts += sorted(r.randrange(n) for _ in range(min(8, nsample)))
    faults += [{"k": "cut", "at": c} for c in cuts]
    # extension
    for cnt in (1, 2, 3, 4, 7, 8):
        faults.append({"k": "extend", "n": cnt, "fill": "zero"})
    for cnt in (1, 4, 8):
        faults.append({"k": "extend", "n": cnt, "fill": "garbage", "seed": r.randrange(1 << 30)})
        faults.append({"k": "extend", "n": cnt, "fill": "tail"})
    # bit flips
    if n <= max_len_all_flips:
        bits = list(range(8 * n))
    else:
        ctrl_bits = []
        for s, en, kind, w, path, _info in wmap:
            if kind in CTRL_KINDS:
                ctrl_bits += list(range(8 * s, 8 * en))
        bits = [r.choice(ctrl_bits) for _ in range(nsample // 2)] if ctrl_bits else []
        bits += [r.randrange(8 * n) for _ in range(nsample - len(bits))]
        bits = sorted(set(bits))
    faults += [{"k": "flip", "bit": b} for b in bits]
    # control words
    ctrl = []
    for idx, (s, en, kind, w, path, info) in enumerate(wmap):
        if kind in CTRL_KINDS:
            info = info or {}
            vals = ctrl_values(kind, w, info.get("limit"), info.get("known"))
            if kind in ("counter", "sizer"):
                # counts tied to what is left of the input: the largest a "count <= remaining bytes" guard lets through
                rest = n - en
                vals = vals + [v for v in (rest, rest + 1, rest // 2, rest // 4) if 0 < v < (1 << (8 * w)) and v not in vals]
            for v in vals:
                ctrl.append({"k": "ctrl", "at": s, "w": w, "v": v, "e": e, "kind": kind})
    if len(ctrl) > max_ctrl:
        ctrl = r.sample(ctrl, max_ctrl)
    faults += ctrl
    # pairs: a corrupted control word plus a truncation / extension
    npairs = max(1, len(ctrl) * pair_share // 100) if ctrl else 0
    for _ in range(npairs):
        c = r.choice(ctrl)
        if r.random() < 0.7 and n:
            second = {"k": "cut", "at": r.randrange(n)}
        else:
            second = {"k": "extend", "n": r.choice((1, 4, 8)), "fill": "zero"}
        faults.append({"k": "multi", "faults": [c, second]})
    # random strings
    for ln in (0, 1, 3, 4, 8, 16, 33, 64):
        faults.append({"k": "random", "n": ln, "seed": r.randrange(1 << 30)})
    return faults


def fault_kind(f):
    if f["k"] == "ctrl":
        return "ctrl-" + f["kind"]
    if f["k"] == "extend":
        return "extend-" + f["fill"]
    if f["k"] == "multi":
        return "multi:" + "+".join(fault_kind(x) for x in f["faults"])
    return f["k"]


def landed_in(wmap, fault):
    """kind of the map range a fault touches (class-key component)"""
    if fault["k"] == "cut":
        pos = fault["at"]
    elif fault["k"] == "flip":
        pos = fault["bit"] // 8
    elif fault["k"] == "ctrl":
        pos = fault["at"]
    elif fault["k"] == "multi":
        return landed_in(wmap, fault["faults"][0])
    else:
        return "-"
    for s, en, kind, w, path, _info in wmap:
        if s <= pos < en:
            tail = path.rsplit("/", 1)[1] if "/" in path else ""
            return kind + ("-" + tail if tail else "")
    return "end"
