"""The simulated clock: a counter of line events in frames of the system under test.

`with StepClock(budget) as c:` counts 'line' events of frames whose code lives under the repository, ply, or a
generated module; exceeding the budget raises SimTimeout (a BaseException, so no `except Exception` of the system
under test can swallow it). Wall-clock time is never consulted.
"""
import os
import sys

REPO = os.environ.get("VERIF_REPO", "/repo")


class SimTimeout(BaseException):
    pass


class StepClock(object):
    """budget: line events. cpu_budget_s: optional second clock for native code the line clock cannot see (a regular
    expression that backtracks for ever executes no Python line): process CPU time (ITIMER_VIRTUAL, not wall time, so
    machine load does not matter), set two orders of magnitude above anything a terminating run needs."""

    def __init__(self, budget, prefixes=None, cpu_budget_s=None):
        self.budget = budget
        self.cpu_budget_s = cpu_budget_s
        self.cpu_fired = False
        self.steps = 0
        self.prefixes = tuple(prefixes or (REPO + "/", "<generated", "ply/", "/ply/"))
        self._interesting = {}

    def _is_interesting(self, code):
        r = self._interesting.get(code)
        if r is None:
            fn = code.co_filename
            r = fn.startswith(self.prefixes) or "/ply/" in fn or "/xml/" in fn
            self._interesting[code] = r
        return r

    def _local(self, frame, event, arg):
        if event == "line":
            self.steps += 1
            if self.steps > self.budget:
                raise SimTimeout("step budget %d exceeded" % self.budget)
        return self._local

    def _global(self, frame, event, arg):
        if self._is_interesting(frame.f_code):
            self.steps += 1
            if self.steps > self.budget:
                raise SimTimeout("step budget %d exceeded" % self.budget)
            return self._local
        return None

    def _cpu(self, signum, frame):
        self.cpu_fired = True
        raise SimTimeout("cpu budget of %s s exceeded" % self.cpu_budget_s)

    def __enter__(self):
        self._old = sys.gettrace()
        if self.cpu_budget_s:
            import signal
            self._oldsig = signal.signal(signal.SIGVTALRM, self._cpu)
            signal.setitimer(signal.ITIMER_VIRTUAL, self.cpu_budget_s)
        sys.settrace(self._global)
        return self

    def __exit__(self, *a):
        sys.settrace(self._old)
        if self.cpu_budget_s:
            import signal
            signal.setitimer(signal.ITIMER_VIRTUAL, 0)
            signal.signal(signal.SIGVTALRM, self._oldsig)
        return False
