"""The simulated clock: a counter of line events in frames of the system under test.

`with StepClock(budget) as c:` counts 'line' events of frames whose code lives under the repository, ply, or a
generated module; exceeding the budget raises SimTimeout (a BaseException, so no `except Exception` of the system
under test can swallow it). Wall-clock time is never consulted.
"""
import os
import sys

REPO = os.environ.get("VERIF_REPO", "/repo")


class SimTimeout(BaseException):
    pass


class StepClock(object):
    def __init__(self, budget, prefixes=None):
        self.budget = budget
        self.steps = 0
        self.prefixes = tuple(prefixes or (REPO + "/", "<generated", "ply/", "/ply/"))
        self._interesting = {}

    def _is_interesting(self, code):
        r = self._interesting.get(code)
        if r is None:
            fn = code.co_filename
            r = fn.startswith(self.prefixes) or "/ply/" in fn or "/xml/" in fn
            self._interesting[code] = r
        return r

    def _local(self, frame, event, arg):
        if event == "line":
            self.steps += 1
            if self.steps > self.budget:
                raise SimTimeout("step budget %d exceeded" % self.budget)
        return self._local

    def _global(self, frame, event, arg):
        if self._is_interesting(frame.f_code):
            self.steps += 1
            if self.steps > self.budget:
                raise SimTimeout("step budget %d exceeded" % self.budget)
            return self._local
        return None

    def __enter__(self):
        self._old = sys.gettrace()
        sys.settrace(self._global)
        return self

    def __exit__(self, *a):
        sys.settrace(self._old)
        return False
