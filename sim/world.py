"""World construction: schema text -> prophyc.main (real code, simulated file system) -> generated Python
module imported into a synthetic package against the real prophy runtime."""
import contextlib
import io
import os
import sys
import types

REPO = os.environ.get("VERIF_REPO", "/repo")
if REPO not in sys.path:
    sys.path.insert(0, REPO)

from . import fs as simfs   # noqa: E402

_counter = [0]


class CompileFailed(Exception):
    def __init__(self, exc, stderr):
        Exception.__init__(self, "%s: %s" % (type(exc).__name__, exc))
        self.exc = exc
        self.stderr = stderr


def run_prophyc(fs, argv):
    """One simulated compiler invocation. -> (model_nodes | None, exception | None, stdout, stderr)"""
    import prophyc
    out, err = io.StringIO(), io.StringIO()
    nodes = exc = None
    with simfs.installed(fs), contextlib.redirect_stdout(out), contextlib.redirect_stderr(err):
        try:
            nodes = prophyc.main(list(argv))
        except SystemExit as e:
            exc = e
        except Exception as e:   # noqa
            exc = e
    return nodes, exc, out.getvalue(), err.getvalue()


def import_generated(sources, want=None):
    """sources: {basename: python text}. Executes them as one synthetic package (relative imports between
    generated modules work). -> {basename: module}.  Raises whatever the import raises."""
    _counter[0] += 1
    pkg_name = "vw%d" % _counter[0]
    pkg = types.ModuleType(pkg_name)
    pkg.__path__ = []
    sys.modules[pkg_name] = pkg
    mods = {}
    done = set()
    out = io.StringIO()

    class _Finder(object):
        pass

    def load(base):
        full = pkg_name + "." + base
        if full in sys.modules:
            return sys.modules[full]
        if base not in sources:
            raise ImportError("no generated module %s" % base)
        mod = types.ModuleType(full)
        mod.__package__ = pkg_name
        sys.modules[full] = mod
        mods[base] = mod
        code = compile(sources[base], "<generated %s.py>" % base, "exec")
        # relative imports resolve through sys.modules: pre-load what the module imports
        for line in sources[base].splitlines():
            s = line.strip()
            if s.startswith("from .") and " import " in s:
                dep = s[len("from ."):].split(" import ")[0].strip()
                if dep and dep not in done:
                    done.add(dep)
                    load(dep)
        exec(code, mod.__dict__)
        return mod

    try:
        with contextlib.redirect_stdout(out):
            for base in (want or sorted(sources)):
                done.add(base)
                load(base)
    finally:
        for k in [k for k in sys.modules if k == pkg_name or k.startswith(pkg_name + ".")]:
            del sys.modules[k]
    return mods


class World(object):
    """One compiled single-file schema."""

    def __init__(self, text, base="s", extra_args=(), syntax="prophy"):
        self.fs = simfs.FakeFS("/w")
        self.fs.mkdir("/w/out")
        ext = ".prophy" if syntax == "prophy" else ".xml"
        self.fs.put("/w/%s%s" % (base, ext), text)
        argv = (["--isar"] if syntax == "isar" else []) + ["--python_out", "/w/out"] + list(extra_args) + \
            ["/w/%s%s" % (base, ext)]
        nodes, exc, so, se = run_prophyc(self.fs, argv)
        if exc is not None:
            raise CompileFailed(exc, se)
        self.nodes = nodes[base]
        self.stderr = se
        self.py_source = self.fs.get("/w/out/%s.py" % base)
        self.module = import_generated({base: self.py_source})[base]

    def cls(self, name):
        return getattr(self.module, name)
