"""Minimisation. Two levels, both deterministic and bounded:

1. tape level (internal reduction): delete blocks, zero blocks, lower single draws of the choice tape; the plan is
   re-derived from every candidate tape, so candidates are always well formed;
2. plan level: simulation-specific structural edits supplied by the simulation (drop operations, drop faults ...).

`same(candidate_plan)` must return True iff executing the plan shows a violation of the same class.
"""
import time


def shrink_tape(tape_list, derive, same, budget_s=20.0, max_exec=600):
    """tape_list: recorded draws. derive(list) -> plan. -> (best tape, best plan, executions)"""
    t0 = time.time()
    best = list(tape_list)
    best_plan = derive(best)
    execs = [0]

    def attempt(cand):
        if execs[0] >= max_exec or time.time() - t0 > budget_s:
            return False
        execs[0] += 1
        try:
            plan = derive(cand)
        except Exception:
            return False
        try:
            ok = same(plan)
        except Exception:
            ok = False
        return plan if ok else False

    changed = True
    while changed and execs[0] < max_exec and time.time() - t0 <= budget_s:
        changed = False
        # 1. delete blocks, large to small, from the end (later draws are usually operations / faults)
        for size in (64, 16, 8, 4, 2, 1):
            i = len(best) - size
            while i >= 0:
                cand = best[:i] + best[i + size:]
                r = attempt(cand)
                if r:
                    best, best_plan, changed = cand, r, True
                    i -= size
                else:
                    i -= max(1, size // 2)
                if execs[0] >= max_exec:
                    break
        # 2. zero blocks
        for size in (16, 4, 1):
            i = 0
            while i < len(best):
                if any(best[i:i + size]):
                    cand = best[:i] + [0] * len(best[i:i + size]) + best[i + size:]
                    r = attempt(cand)
                    if r:
                        best, best_plan, changed = cand, r, True
                i += size
                if execs[0] >= max_exec:
                    break
        # 3. lower single values
        for i in range(len(best)):
            v = best[i]
            if v > 1:
                for nv in (1, v // 2, v - 1):
                    if nv < best[i]:
                        cand = best[:i] + [nv] + best[i + 1:]
                        r = attempt(cand)
                        if r:
                            best, best_plan, changed = cand, r, True
                            break
            if execs[0] >= max_exec:
                break
    return best, best_plan, execs[0]


def shrink_list_field(plan, key, same, budget_s=15.0, max_exec=400, copy_plan=None):
    """Drop elements of plan[key] (a list) while the same violation class persists."""
    import copy
    t0 = time.time()
    execs = 0
    best = plan
    size = max(1, len(best[key]) // 2)
    while size >= 1:
        i = len(best[key]) - size
        while i >= 0:
            if execs >= max_exec or time.time() - t0 > budget_s:
                return best, execs
            cand = copy.deepcopy(best)
            del cand[key][i:i + size]
            execs += 1
            try:
                ok = same(cand)
            except Exception:
                ok = False
            if ok:
                best = cand
                i -= size
            else:
                i -= 1 if size == 1 else max(1, size // 2)
        size //= 2
    return best, execs
