"""In-memory file system behind the `os` / `codecs` module globals of prophyc.

Seam: prophyc.options, prophyc.file_processor, prophyc.patch, prophyc.generators.base and prophyc (the
package __init__) look up `os` / `codecs` as module globals at call time; `installed()` swaps those globals
for the duration of one simulated compiler invocation. No file of /repo is touched.
"""
import errno
import io
import posixpath
from contextlib import contextmanager


class SimOSError(OSError):
    pass


class FakeFS(object):
    def __init__(self, cwd="/w"):
        self.files = {}          # abs path -> str
        self.dirs = {"/"}
        self.cwd = cwd
        self.mkdir(cwd)
        self.reads = []          # abs paths in open-for-read order
        self.writes = []         # abs paths in open-for-write order
        self.faults = {}         # ("read"|"write"|"close", k) -> errno ; k-th open of that mode (0-based)
        self.fired = []
        self.vanish_on_write = None   # directory removed just before the first write (output dir disappears)

    # ---- construction
    def mkdir(self, path):
        path = self.abspath(path)
        while path not in self.dirs:
            self.dirs.add(path)
            path = posixpath.dirname(path)

    def put(self, path, text):
        path = self.abspath(path)
        self.mkdir(posixpath.dirname(path))
        self.files[path] = text

    def get(self, path):
        return self.files.get(self.abspath(path))

    # ---- os.path
    def abspath(self, p):
        return posixpath.normpath(posixpath.join(self.cwd, p))

    def exists(self, p):
        a = self.abspath(p)
        return a in self.files or a in self.dirs

    def isfile(self, p):
        return self.abspath(p) in self.files

    def isdir(self, p):
        return self.abspath(p) in self.dirs

    # ---- codecs.open
    def open(self, path, mode="r", encoding=None, **_):
        a = self.abspath(path)
        if "r" in mode:
            k = len(self.reads)
            self.reads.append(a)
            if ("read", k) in self.faults:
                self.fired.append(("read", k, a))
                raise SimOSError(self.faults[("read", k)], "simulated read fault", path)
            if a not in self.files:
                raise SimOSError(errno.ENOENT, "No such file or directory", path)
            if ("undecodable", k) in self.faults:
                # the stored file is not UTF-8 (a latin-1 comment, a UTF-16 export): reading it through
                # codecs.open(encoding='utf-8') raises exactly this
                self.fired.append(("undecodable", k, a))
                return _Undecodable(self.files[a])
            return io.StringIO(self.files[a])
        k = len(self.writes)
        self.writes.append(a)
        if self.vanish_on_write and k == 0:
            self.dirs.discard(self.vanish_on_write)
        if ("write", k) in self.faults:
            self.fired.append(("write", k, a))
            raise SimOSError(self.faults[("write", k)], "simulated write fault", path)
        if posixpath.dirname(a) not in self.dirs:
            raise SimOSError(errno.ENOENT, "No such file or directory", path)
        return _WFile(self, a, k)


class _Undecodable(io.StringIO):
    def _boom(self, *a, **k):
        raise UnicodeDecodeError("utf-8", b"\xe4", 0, 1, "invalid continuation byte")
    read = readline = readlines = __next__ = _boom


class _WFile(io.StringIO):
    def __init__(self, fs, path, k):
        io.StringIO.__init__(self)
        self._fs = fs
        self._path = path
        self._k = k

    def close(self):
        if not self.closed:
            fs = self._fs
            if ("close", self._k) in fs.faults:
                fs.fired.append(("close", self._k, self._path))
                # a torn write: half of the content reaches the disk, then ENOSPC
                v = self.getvalue()
                fs.files[self._path] = v[:len(v) // 2]
                io.StringIO.close(self)
                raise SimOSError(fs.faults[("close", self._k)], "simulated close fault", self._path)
            fs.files[self._path] = self.getvalue()
        io.StringIO.close(self)

    def __exit__(self, *a):
        self.close()


class _FakePath(object):
    def __init__(self, fs):
        self._fs = fs
        for n in ("join", "dirname", "basename", "splitext", "normpath", "split", "isabs", "sep"):
            setattr(self, n, getattr(posixpath, n))
        self.exists = fs.exists
        self.isfile = fs.isfile
        self.isdir = fs.isdir
        self.abspath = fs.abspath


class FakeOS(object):
    def __init__(self, fs):
        self._fs = fs
        self.path = _FakePath(fs)
        self.sep = "/"

    def getcwd(self):
        return self._fs.cwd


class FakeCodecs(object):
    def __init__(self, fs):
        self.open = fs.open


_PATCHED = None


def _modules():
    import prophyc
    import prophyc.options
    import prophyc.file_processor
    import prophyc.patch
    import prophyc.generators.base
    import prophyc.parsers.prophy
    import prophyc.parsers.isar
    return [(prophyc, ("os",)), (prophyc.options, ("os",)), (prophyc.file_processor, ("os", "codecs")),
            (prophyc.patch, ("codecs",)), (prophyc.generators.base, ("os", "codecs")),
            (prophyc.parsers.prophy, ("os",)), (prophyc.parsers.isar, ("os",))]


@contextmanager
def installed(fs):
    fos, fco = FakeOS(fs), FakeCodecs(fs)
    saved = []
    for mod, names in _modules():
        for n in names:
            saved.append((mod, n, getattr(mod, n)))
            setattr(mod, n, fos if n == "os" else fco)
    try:
        yield fs
    finally:
        for mod, n, v in saved:
            setattr(mod, n, v)
