"""The C++ full-codec peer: generated code + shipped headers + generic driver, built with ASan/UBSan, driven in
lock-step over pipes. The peer is a pure function of its stdin; a sanitizer abort is attributed to the request
that got no reply, the peer is restarted and the run goes on.
"""
import os
import shutil
import struct as _struct
import subprocess
import tempfile

REPO = os.environ.get("VERIF_REPO", "/repo")
HERE = os.path.dirname(os.path.dirname(os.path.abspath(__file__)))
INCLUDE = os.path.join(REPO, "prophy_cpp", "include")

CXX = os.environ.get("VERIF_CXX", "clang++")
# every sanitizer check aborts, except -fsanitize=enum which reports and goes on: loading an unknown enumerator is a
# listed finding that fires on almost every corrupted enum word; its reports are collected from stderr
CXXFLAGS = ["-std=c++11", "-O0", "-gline-tables-only", "-fno-omit-frame-pointer", "-fsanitize=address,undefined",
            "-fno-sanitize-recover=all", "-fsanitize-recover=enum", "-w"]

C_INT = {"u8": "uint8_t", "u16": "uint16_t", "u32": "uint32_t", "u64": "uint64_t", "i8": "int8_t", "i16": "int16_t",
         "i32": "int32_t", "i64": "int64_t", "r32": "float", "r64": "double", "byte": "uint8_t"}


class BuildFailed(Exception):
    pass


def _ctype(name):
    return C_INT.get(name, name)


def gen_builders(schema, R):
    out = []
    for t in ("uint8_t", "uint16_t", "uint32_t", "uint64_t"):
        out.append("static void build(%s& x, Script& s) { x = %s(s.next_uint()); }" % (t, t))
    for t in ("int8_t", "int16_t", "int32_t", "int64_t"):
        out.append("static void build(%s& x, Script& s) { x = %s(s.next_int()); }" % (t, t))
    out.append("static void build(float& x, Script& s) { x = s.next_float(); }")
    out.append("static void build(double& x, Script& s) { x = s.next_double(); }")
    comps = []
    for d in schema["defs"]:
        if d["k"] == "enum":
            out.append("static void build(%s& x, Script& s) { x = %s(s.next_uint()); }" % (d["name"], d["name"]))
        elif d["k"] in ("struct", "union"):
            out.append("static void build(%s& x, Script& s);" % d["name"])
            comps.append(d)
    for d in comps:
        body = []
        if d["k"] == "union":
            body.append("x.discriminator = %s::_discriminator(s.next_uint());" % d["name"])
            body.append("switch (x.discriminator) {")
            for a in d["arms"]:
                body.append("case %s::discriminator_%s: build(x.%s, s); break;" % (d["name"], a["name"], a["name"]))
            body.append("}")
        else:
            sizers = set(m.get("sizer") for m in d["members"] if m.get("sizer"))
            for m in d["members"]:
                n = m["name"]
                if n in sizers:
                    continue
                if m["opt"]:
                    body.append("if (s.next_uint()) { x.%s = %s(); build(*x.%s, s); }" % (n, _ctype(m["type"]), n))
                elif m["arr"] == "fixed":
                    body.append("for (size_t i = 0; i < %d; ++i) build(x.%s[i], s);" % (m["n"], n))
                elif m["arr"]:
                    body.append("{ size_t n = s.next_uint(); x.%s.resize(n); for (size_t i = 0; i < n; ++i) build(x.%s[i], s); }" % (n, n))
                else:
                    body.append("build(x.%s, s);" % n)
        out.append("static void build(%s& x, Script& s)\n{\n    %s\n}" % (d["name"], "\n    ".join(body)))
    return "\n".join(out)


def flatten(t, tree, out):
    """the script the generated build() consumes (mirror of gen_builders)"""
    if t.cat == "scalar":
        if t.is_float:
            if t.size == 4:
                out.append(str(_struct.unpack("<I", _struct.pack("<f", tree))[0]))
            else:
                out.append(str(_struct.unpack("<Q", _struct.pack("<d", tree))[0]))
        else:
            out.append(str(int(tree)))
    elif t.cat == "enum":
        out.append(str(int(tree)))
    elif t.cat == "union":
        name, at, disc = t.by_name[tree["@arm"]]
        out.append(str(disc))
        flatten(at, tree["v"], out)
    else:
        for m in t.members:
            if m.sizes:
                continue
            v = tree[m.name]
            if m.opt:
                if v is None:
                    out.append("0")
                else:
                    out.append("1")
                    flatten(m.type, v, out)
            elif m.is_bytes:
                if m.arr != "fixed":
                    out.append(str(len(v)))
                out.extend(str(b) for b in bytes(v))
            elif m.arr == "fixed":
                for x in v:
                    flatten(m.type, x, out)
            elif m.arr:
                out.append(str(len(v)))
                for x in v:
                    flatten(m.type, x, out)
            else:
                flatten(m.type, v, out)
    return out


def driver_source(base, schema, R):
    with open(os.path.join(HERE, "cpp", "driver.cpp.in")) as f:
        src = f.read()
    comps = [d["name"] for d in schema["defs"] if d["k"] in ("struct", "union")]
    dec = "\n".join("                case %d: handle_decode<%s>(e, data); break;" % (i, n) for i, n in enumerate(comps))
    bld = "\n".join("                case %d: handle_build<%s>(e, rest); break;" % (i, n) for i, n in enumerate(comps))
    sizes = "\n".join('            printf("%s=%%d ", int(%s::encoded_byte_size));' % (n, n) for n in comps)
    return (src.replace("@BASE@", base).replace("@BUILDERS@", gen_builders(schema, R))
            .replace("@DECODE_CASES@", dec).replace("@BUILD_CASES@", bld).replace("@SIZES@", sizes)), comps


class Peer(object):
    def __init__(self, base, hpp, cpp, schema, R, cxx=None, extra=()):
        """extra: [(basename, hpp text, cpp text)] of included schemas generated in the same compiler run"""
        self.dir = tempfile.mkdtemp(prefix="verif-cpp-", dir="/dev/shm" if os.path.isdir("/dev/shm") else None)
        self.proc = None
        self.restarts = 0
        self.last_stderr = ""
        try:
            with open(os.path.join(self.dir, base + ".ppf.hpp"), "w") as f:
                f.write(hpp)
            with open(os.path.join(self.dir, base + ".ppf.cpp"), "w") as f:
                f.write(cpp)
            more = []
            for b, h, c in extra:
                with open(os.path.join(self.dir, b + ".ppf.hpp"), "w") as f:
                    f.write(h)
                with open(os.path.join(self.dir, b + ".ppf.cpp"), "w") as f:
                    f.write(c)
                more.append(b + ".ppf.cpp")
            src, self.types = driver_source(base, schema, R)
            with open(os.path.join(self.dir, "driver.cpp"), "w") as f:
                f.write(src)
            cmd = [cxx or CXX] + CXXFLAGS + ["-I", INCLUDE, "-I", self.dir, base + ".ppf.cpp"] + more + ["driver.cpp", "-o", "peer"]
            p = subprocess.run(cmd, cwd=self.dir, stdout=subprocess.PIPE, stderr=subprocess.PIPE, timeout=600)
            if p.returncode != 0:
                raise BuildFailed(p.stderr.decode("utf-8", "replace")[:3000])
        except Exception:
            self.close()
            raise

    def start(self):
        env = {"ASAN_OPTIONS": "detect_leaks=0:abort_on_error=0:exitcode=99:allocator_may_return_null=1:"
                               "max_allocation_size_mb=1024",
               "UBSAN_OPTIONS": "print_stacktrace=0:halt_on_error=0", "PATH": os.environ.get("PATH", "")}
        self.errfile = open(os.path.join(self.dir, "stderr.txt"), "w+")
        self.proc = subprocess.Popen([os.path.join(self.dir, "peer")], stdin=subprocess.PIPE, stdout=subprocess.PIPE,
                                     stderr=self.errfile, env=env, cwd=self.dir)

    def request(self, line):
        """-> reply line (str) | None when the peer died (self.last_stderr then holds the report)"""
        if self.proc is None or self.proc.poll() is not None:
            self.start()
        try:
            self.proc.stdin.write(line.encode() + b"\n")
            self.proc.stdin.flush()
            reply = self.proc.stdout.readline()
        except (BrokenPipeError, OSError):
            reply = b""
        if not reply:
            self.proc.wait()
            self.errfile.seek(0)
            self.last_stderr = self.errfile.read()[-6000:]
            self.last_rc = self.proc.returncode
            self.errfile.close()
            self.proc = None
            self.restarts += 1
            return None
        return reply.decode("ascii", "replace").rstrip("\n")

    def recovered_reports(self):
        """non-fatal sanitizer reports (the recoverable enum check) written so far"""
        try:
            with open(os.path.join(self.dir, "stderr.txt")) as f:
                return [ln for ln in f.read().split("\n") if "runtime error:" in ln]
        except OSError:
            return []

    def close(self):
        if self.proc is not None:
            try:
                self.proc.stdin.close()
                self.proc.wait(timeout=10)
            except Exception:
                self.proc.kill()
            try:
                self.errfile.close()
            except Exception:
                pass
            self.proc = None
        shutil.rmtree(self.dir, ignore_errors=True)


def parse_reply(reply):
    """'T k=v ...' -> dict ; 'F ...' -> {'ok': False}"""
    parts = reply.split(" ")
    d = {"ok": parts[0] == "T", "tag": parts[0]}
    for p in parts[1:]:
        if "=" in p:
            k, v = p.split("=", 1)
            d[k] = v
    for k in ("gbs", "ret", "alloc_max", "alloc_sum", "ptr_eq_vec"):
        if k in d:
            d[k] = int(d[k])
    if "vec" in d:
        d["vec"] = bytes.fromhex(d["vec"])
    if "text" in d:
        d["text"] = bytes.fromhex(d["text"]).decode("latin-1")
    return d


def sanitizer_key(stderr):
    """first frame of the report that lies in prophy headers or generated code -> class-key component"""
    import re
    kind = "crash"
    m = re.search(r"AddressSanitizer: ([a-zA-Z-]+)", stderr)
    if m:
        kind = "asan:" + m.group(1)
    else:
        m = re.search(r"runtime error: ([^\n]{0,200})", stderr)
        if m:
            msg = m.group(1)
            if "not a valid value for type" in msg:
                kind = "ubsan:invalid-enum-value"
            else:
                words = re.sub(r"0x[0-9a-f]+|\d+|'[^']*'|[,;:]", "", msg).split()
                kind = "ubsan:" + "-".join(words[:5])
    frame = ""
    for ln in stderr.split("\n"):
        m = re.search(r"#\d+ 0x[0-9a-f]+ in (.+?) (\S+?):(\d+)", ln)
        if m and ("/prophy/" in m.group(2) or ".ppf." in m.group(2)):
            fn = re.sub(r"<.*", "", m.group(1)).split("(")[0].split("::")[-1]
            frame = "%s@%s" % (fn, os.path.basename(m.group(2)))
            break
    return kind + ("/" + frame if frame else "")
